//@unit handler_cp
//@props C03 C04 C06 C02 C05
// The arms of the protocol handler (vls-protocol-signer/src/handler.rs, ChannelHandler::do_handle) through which the
// counterparty's commitments are signed and revoked and the holder's commitment is signed for broadcast - SignRemoteCommitmentTx2,
// ValidateRevocation, SignLocalCommitmentTx2, ValidateCommitmentTx2 - and the function that turns the HTLC list of a wire message
// into the two lists of the commitment (extract_htlcs).  The Channel operations are under contract in units channel_cp /
// channel_holder; what is decided HERE is which value of the message reaches which parameter of which operation, on which
// channel, and that the reply carries the operation's answer:
//   * each arm is lifted verbatim (rewrite R30); the closure it hands to Node::with_channel is lifted verbatim as well (R26) and
//     proved to make exactly one Channel call with the captured values; in the arm the `with_channel(&self.channel_id, |chan| ..)`
//     expression is replaced by a stub that names the captured variables as arguments (by the names of the lifted closure's
//     parameters) and whose contract is the closure's contract on the channel registered under self.channel_id;
//   * extract_htlcs: its four expression closures (two `filter` predicates, two `map` bodies) are lifted verbatim (R26,
//     expression form) and proved equal to the reference functions; the two `iter().filter(..).map(..).collect()` chains are
//     stubs with std semantics over those reference functions.  Result: first component = the HTLCs of side REMOTE (offered by
//     the peer), second = the HTLCs of side LOCAL (offered by this node); amounts are whole satoshis of the msat amount.
use vstd::prelude::*;
use vstd::std_specs::cmp::OrdSpec;
//@include prelude/core.rs
//@include prelude/deps.rs
//@include prelude/btc.rs
//@map /Result<Box<dyn SerBolt>>/ => Result<VxReply, Status>
//@map /PublicKey::from_slice\(&m\.remote_per_commitment_point\.0\)/ => vx_pubkey_from_wire(&m.remote_per_commitment_point)
//@map /SecretKey::from_slice\(&m\.commitment_secret\.0\)/ => vx_secret_from_wire(&m.commitment_secret)
//@map /ecdsa::Signature::from_compact\(&m\.signature\.signature\.0\)/ => vx_sig_from_wire(&m.signature)
//@map /ecdsa::Signature::from_compact\(&s\.signature\.0\)/ => vx_sig_from_wire(s)
//@map /EcdsaSighashType::All as u8/ => vx_sighash_all()
//@map /EcdsaSighashType::SinglePlusAnyoneCanPay as u8/ => vx_sighash_single_acp()
//@map /(\w+)(?:\.clone\(\))?\.map\(\|s\| DisclosedSecret\(s\[\.\.\]\.try_into\(\)\.(?:unwrap|vx_expect)\(\)\)\)/ => vx_disclose(\1)
//@map /PubKey\(next_per_commitment_point\.serialize\(\)\)/ => vx_wire_of_point(next_per_commitment_point)
//@map /PubKey\(point\.serialize\(\)\)/ => vx_wire_of_point(point)
verus! {

//@@TAGS

//@const vls-protocol/src/msgs.rs :: PROTOCOL_VERSION_REVOKE
//@const vls-protocol/src/msgs.rs :: PROTOCOL_VERSION_NO_SECRET
impl Status { #[verifier::external_body] pub fn invalid_argument<B>(msg: B) -> Status { unimplemented!() } }
#[verifier::external_body] pub fn vx_sighash_single_acp() -> (r: u8) { unimplemented!() }

#[verifier::external_body] pub struct VxReply { _p: u8 }
#[verifier::external_body] pub struct VxChanView { _p: u8 }
// the channel the closure is handed (&mut Channel): its public enforcement state is visible (a closure that writes it directly,
// instead of going through a Channel operation, changes the channel's view and fails its contract), the rest is opaque
pub struct VxEnforcementState { pub next_holder_commit_num: u64, pub next_counterparty_commit_num: u64, pub next_counterparty_revoke_num: u64, pub channel_closed: bool,
    pub initial_holder_value: u64, pub rest: VxChanRest }
pub struct VxChan { pub enforcement_state: VxEnforcementState, pub rest: VxChanRest }
#[verifier::external_body] pub struct VxChanRest { _p: u8 }
#[verifier::external_body] pub struct VxNodeH { _p: u8 }
#[verifier::external_body] pub struct VxHandlerRest { _p: u8 }
// vls-protocol wire types
pub struct PubKey(pub [u8; 33]);
pub struct DisclosedSecret(pub [u8; 32]);
pub struct Sha256(pub [u8; 32]);
pub struct VxWireSig { pub sig64: [u8; 64] }
pub struct BitcoinSignature { pub signature: VxWireSig, pub sighash: u8 }
pub struct Htlc { pub side: u8, pub amount: u64, pub payment_hash: Sha256, pub ctlv_expiry: u32 }
impl Htlc {
//@const vls-protocol/src/model.rs :: LOCAL ctx="impl Htlc"
//@const vls-protocol/src/model.rs :: REMOTE ctx="impl Htlc"
}
// HTLCInfo2 (vls-core/src/tx/tx.rs): the semantic content of one HTLC of a commitment
//@type vls-core/src/tx/tx.rs :: HTLCInfo2 derive=Clone
pub struct VxHtlcArray { pub v: Vec<Htlc> }                 // serde_bolt::Array<Htlc>
pub struct VxSigArray { pub v: Vec<BitcoinSignature> }      // serde_bolt::Array<BitcoinSignature>

pub uninterp spec fn key_of_wire(k: PubKey) -> PublicKey;               // PublicKey::from_slice(&key.0)
pub uninterp spec fn secret_of_wire(k: DisclosedSecret) -> SecretKey;   // SecretKey::from_slice(&secret.0)
pub uninterp spec fn sig_of_wire(s: VxWireSig) -> Signature;            // ecdsa::Signature::from_compact(&sig.0)
// to_bitcoin_sig (verified below): the 64-byte compact form, sighash type ALL
pub uninterp spec fn compact_of(s: Signature) -> [u8; 64];              // sig.serialize_compact()
pub open spec fn wire_of_sig(s: Signature) -> BitcoinSignature { BitcoinSignature { signature: VxWireSig { sig64: compact_of(s) }, sighash: sighash_all_spec() } }
#[verifier::external_body] pub fn vx_wire_sig(s: &Signature) -> (r: VxWireSig) ensures r.sig64 == compact_of(*s) { unimplemented!() }
pub struct VxBadKey { pub p: u8 }
#[verifier::external_body] pub fn vx_pubkey_from_wire(k: &PubKey) -> (r: Result<PublicKey, VxBadKey>) ensures r.is_ok() ==> r->Ok_0 == key_of_wire(*k) { unimplemented!() }
#[verifier::external_body] pub fn vx_secret_from_wire(k: &DisclosedSecret) -> (r: Result<SecretKey, VxBadKey>) ensures r.is_ok() ==> r->Ok_0 == secret_of_wire(*k) { unimplemented!() }
#[verifier::external_body] pub fn vx_sig_from_wire(k: &BitcoinSignature) -> (r: Result<Signature, VxBadKey>) ensures r.is_ok() ==> r->Ok_0 == sig_of_wire(k.signature) { unimplemented!() }
pub uninterp spec fn sighash_all_spec() -> u8;
#[verifier::external_body] pub fn vx_sighash_all() -> (r: u8) ensures r == sighash_all_spec() { unimplemented!() }

//@fn vls-protocol-signer/src/handler.rs :: - :: to_bitcoin_sig props=C04
//@sigsub /ecdsa::Signature/ => Signature
    ensures r == wire_of_sig(sig),                                        //[C04.handler.reply-signature-is-the-compact-form-with-sighash-all]
//@sub /Signature\(sig\.serialize_compact\(\)\)/ => vx_wire_sig(&sig)
//@end

// ---------------------------------------------------------------- the HTLC lists a message denotes (reference, from the meaning
// of the wire fields: side 0 = offered by this node, 1 = offered by the peer; amount in millisatoshi; a commitment carries whole
// satoshis)
pub open spec fn htlc_info_of(h: Htlc) -> HTLCInfo2 {
    HTLCInfo2 { value_sat: h.amount / 1000, payment_hash: PaymentHash(h.payment_hash.0), cltv_expiry: h.ctlv_expiry }
}
pub open spec fn is_local(h: Htlc) -> bool { h.side == 0 }
pub open spec fn is_remote(h: Htlc) -> bool { h.side == 1 }
// filter-then-map over a sequence, written by recursion (F keeps, G maps)
pub open spec fn filter_map_seq(s: Seq<Htlc>, f: spec_fn(Htlc) -> bool, g: spec_fn(Htlc) -> HTLCInfo2) -> Seq<HTLCInfo2>
    decreases s.len()
{
    if s.len() == 0 { Seq::empty() }
    else if f(s.last()) { filter_map_seq(s.drop_last(), f, g).push(g(s.last())) }
    else { filter_map_seq(s.drop_last(), f, g) }
}
pub open spec fn htlcs_offered_by_node(s: Seq<Htlc>) -> Seq<HTLCInfo2> { filter_map_seq(s, |h: Htlc| is_local(h), |h: Htlc| htlc_info_of(h)) }
pub open spec fn htlcs_offered_by_peer(s: Seq<Htlc>) -> Seq<HTLCInfo2> { filter_map_seq(s, |h: Htlc| is_remote(h), |h: Htlc| htlc_info_of(h)) }
pub proof fn lemma_filter_map_ext(s: Seq<Htlc>, f1: spec_fn(Htlc) -> bool, g1: spec_fn(Htlc) -> HTLCInfo2, f2: spec_fn(Htlc) -> bool, g2: spec_fn(Htlc) -> HTLCInfo2)
    requires forall|h: Htlc| #[trigger] f1(h) == f2(h), forall|h: Htlc| #[trigger] g1(h) == g2(h),
    ensures filter_map_seq(s, f1, g1) == filter_map_seq(s, f2, g2),
    decreases s.len()
{
    if s.len() > 0 { lemma_filter_map_ext(s.drop_last(), f1, g1, f2, g2); }
}

// `htlcs.iter().filter(F).map(G).collect()` with the first / second pair of closures of extract_htlcs (std iterator semantics:
// the elements F keeps, in order, each mapped by G; F and G are the lifted closures below, proved equal to the spec_extract_*
// functions on their real text)
#[verifier::external_body]
pub fn vx_filter_map_chain1(htlcs: &[Htlc]) -> (r: Vec<HTLCInfo2>)
    ensures r@ == filter_map_seq(htlcs@, |h: Htlc| spec_extract_filter1(h), |h: Htlc| spec_extract_map1(h)) { unimplemented!() }
#[verifier::external_body]
pub fn vx_filter_map_chain2(htlcs: &[Htlc]) -> (r: Vec<HTLCInfo2>)
    ensures r@ == filter_map_seq(htlcs@, |h: Htlc| spec_extract_filter2(h), |h: Htlc| spec_extract_map2(h)) { unimplemented!() }
// what the closures of extract_htlcs compute (each proved below on the closure's real text)
pub open spec fn spec_extract_filter1(h: Htlc) -> bool { is_local(h) }
pub open spec fn spec_extract_map1(h: Htlc) -> HTLCInfo2 { htlc_info_of(h) }
pub open spec fn spec_extract_filter2(h: Htlc) -> bool { is_remote(h) }
pub open spec fn spec_extract_map2(h: Htlc) -> HTLCInfo2 { htlc_info_of(h) }

//@fn vls-protocol-signer/src/handler.rs :: - :: extract_htlcs exprclosure=1 as=extract_htlcs_filter1 props=C04,C06
//@sig fn extract_htlcs_filter1(h: &&Htlc) -> (r: bool)
    ensures r == spec_extract_filter1(**h),
//@end
//@fn vls-protocol-signer/src/handler.rs :: - :: extract_htlcs exprclosure=2 as=extract_htlcs_map1 props=C04,C06
//@sig fn extract_htlcs_map1(h: &Htlc) -> (r: HTLCInfo2)
    ensures r == spec_extract_map1(*h),
//@end
//@fn vls-protocol-signer/src/handler.rs :: - :: extract_htlcs exprclosure=3 as=extract_htlcs_filter2 props=C04,C06
//@sig fn extract_htlcs_filter2(h: &&Htlc) -> (r: bool)
    ensures r == spec_extract_filter2(**h),
//@end
//@fn vls-protocol-signer/src/handler.rs :: - :: extract_htlcs exprclosure=4 as=extract_htlcs_map2 props=C04,C06
//@sig fn extract_htlcs_map2(h: &Htlc) -> (r: HTLCInfo2)
    ensures r == spec_extract_map2(*h),
//@end

//@fn vls-protocol-signer/src/handler.rs :: - :: extract_htlcs props=C04,C06
    ensures
        // first component: what the PEER offered (side REMOTE), second: what THIS NODE offered (side LOCAL) - a counterparty
        // commitment names them (offered, received), a holder commitment (received, offered)
        r.0@ == htlcs_offered_by_peer(htlcs@),                                                   //[C04.handler.htlc-lists-by-side] [C06.handler.htlc-direction-is-the-messages-side]
        r.1@ == htlcs_offered_by_node(htlcs@),                                                   //[C04.handler.htlc-lists-by-side] [C06.handler.htlc-direction-is-the-messages-side]
//@sub /(?s)htlcs\s*\.iter\(\)\s*\.filter\(\|h\| [^\n]*?\)\s*\.map\(\|h\| HTLCInfo2 \{.*?\}\)\s*\.collect\(\);(.*?)htlcs\s*\.iter\(\)\s*\.filter\(\|h\| [^\n]*?\)\s*\.map\(\|h\| HTLCInfo2 \{.*?\}\)\s*\.collect\(\);/ => vx_filter_map_chain1(htlcs);\1vx_filter_map_chain2(htlcs);
//@proof before /^\s*\(\w+, \w+\)\s*$/
    proof {
        lemma_filter_map_ext(htlcs@, |h: Htlc| spec_extract_filter1(h), |h: Htlc| spec_extract_map1(h), |h: Htlc| is_local(h), |h: Htlc| htlc_info_of(h));
        lemma_filter_map_ext(htlcs@, |h: Htlc| spec_extract_filter2(h), |h: Htlc| spec_extract_map2(h), |h: Htlc| is_remote(h), |h: Htlc| htlc_info_of(h));
    }
//@end

// ---------------------------------------------------------------- call markers: the channel (in the state given) answered this
// call, with exactly these arguments, with this result, leaving it in the state `after` (the operations themselves are under
// contract in units channel_cp, channel_holder; DESIGN.md section 6.9)
pub uninterp spec fn chan_signed_cp2(c: VxChanView, point: PublicKey, n: u64, feerate: u32, to_holder: u64, to_cp: u64, offered: Seq<HTLCInfo2>, received: Seq<HTLCInfo2>,
    r: Result<(Signature, Vec<Signature>), Status>, after: VxChanView) -> bool;
pub uninterp spec fn chan_signed_cp1(c: VxChanView, tx: Transaction, witscripts: Seq<Seq<u8>>, point: PublicKey, n: u64, feerate: u32, offered: Seq<HTLCInfo2>, received: Seq<HTLCInfo2>,
    r: Result<Signature, Status>, after: VxChanView) -> bool;
pub uninterp spec fn chan_validated_cp_revocation(c: VxChanView, n: u64, secret: SecretKey, r: Result<(), Status>, after: VxChanView) -> bool;
pub uninterp spec fn chan_signed_holder2(c: VxChanView, n: u64, r: Result<Signature, Status>, after: VxChanView) -> bool;
pub uninterp spec fn chan_point(c: VxChanView, n: u64, r: Result<PublicKey, Status>) -> bool;
pub uninterp spec fn chan_secret(c: VxChanView, n: u64, r: Result<SecretKey, Status>) -> bool;
pub uninterp spec fn chan_checked_future_secret(c: VxChanView, n: u64, secret: SecretKey, r: Result<bool, Status>) -> bool;
pub uninterp spec fn chan_validated_holder(c: VxChanView, n: u64, feerate: u32, to_local: u64, to_remote: u64, offered: Seq<HTLCInfo2>, received: Seq<HTLCInfo2>,
    sig: Signature, htlc_sigs: Seq<Signature>, after: VxChanView) -> bool;
pub uninterp spec fn chan_validated_holder_raw(c: VxChanView, tx: Transaction, witscripts: Seq<Seq<u8>>, n: u64, feerate: u32, offered: Seq<HTLCInfo2>, received: Seq<HTLCInfo2>,
    sig: Signature, htlc_sigs: Seq<Signature>, after: VxChanView) -> bool;
pub uninterp spec fn chan_revoked(c: VxChanView, n: u64, r: Result<(PublicKey, Option<SecretKey>), Status>, after: VxChanView) -> bool;
pub uninterp spec fn chan_activated(c: VxChanView, r: Result<PublicKey, Status>, after: VxChanView) -> bool;
pub uninterp spec fn chan_signed_mutual_close2(c: VxChanView, to_holder: u64, to_cp: u64, holder_script: Option<ScriptBuf>, cp_script: Option<ScriptBuf>, path: VxPath,
    r: Result<Signature, Status>, after: VxChanView) -> bool;
// the channel registered in the node under this id is in this state
pub uninterp spec fn node_channel(n: VxNodeH, id: ChannelId, c: VxChanView) -> bool;

impl VxChan {
    pub uninterp spec fn view(&self) -> VxChanView;
    #[verifier::external_body]
    pub fn sign_counterparty_commitment_tx_phase2(&mut self, remote_per_commitment_point: &PublicKey, commitment_number: u64, feerate_per_kw: u32,
        to_holder_value_sat: u64, to_counterparty_value_sat: u64, offered_htlcs: Vec<HTLCInfo2>, received_htlcs: Vec<HTLCInfo2>) -> (r: Result<(Signature, Vec<Signature>), Status>)
        ensures chan_signed_cp2(old(self)@, *remote_per_commitment_point, commitment_number, feerate_per_kw, to_holder_value_sat, to_counterparty_value_sat,
            offered_htlcs@, received_htlcs@, r, final(self)@)
    { unimplemented!() }
    #[verifier::external_body]
    pub fn sign_counterparty_commitment_tx(&mut self, tx: &Transaction, output_witscripts: &Vec<Vec<u8>>, remote_per_commitment_point: &PublicKey, commitment_number: u64,
        feerate_per_kw: u32, offered_htlcs: Vec<HTLCInfo2>, received_htlcs: Vec<HTLCInfo2>) -> (r: Result<Signature, Status>)
        ensures chan_signed_cp1(old(self)@, *tx, contents(output_witscripts@), *remote_per_commitment_point, commitment_number, feerate_per_kw, offered_htlcs@, received_htlcs@, r, final(self)@)
    { unimplemented!() }
    #[verifier::external_body]
    pub fn validate_counterparty_revocation(&mut self, revoke_num: u64, old_secret: &SecretKey) -> (r: Result<(), Status>)
        ensures chan_validated_cp_revocation(old(self)@, revoke_num, *old_secret, r, final(self)@) { unimplemented!() }
    #[verifier::external_body]
    pub fn sign_holder_commitment_tx_phase2(&mut self, commitment_number: u64) -> (r: Result<Signature, Status>)
        ensures chan_signed_holder2(old(self)@, commitment_number, r, final(self)@) { unimplemented!() }
    #[verifier::external_body]
    pub fn get_per_commitment_point(&self, commitment_number: u64) -> (r: Result<PublicKey, Status>) ensures chan_point(self@, commitment_number, r) { unimplemented!() }
    #[verifier::external_body]
    pub fn get_per_commitment_secret(&self, commitment_number: u64) -> (r: Result<SecretKey, Status>) ensures chan_secret(self@, commitment_number, r) { unimplemented!() }
    #[verifier::external_body]
    pub fn check_future_secret(&self, commitment_number: u64, suggested: &SecretKey) -> (r: Result<bool, Status>) ensures chan_checked_future_secret(self@, commitment_number, *suggested, r) { unimplemented!() }
    #[verifier::external_body]
    pub fn validate_holder_commitment_tx_phase2(&mut self, commitment_number: u64, feerate_per_kw: u32, to_holder_value_sat: u64, to_counterparty_value_sat: u64,
        offered_htlcs: Vec<HTLCInfo2>, received_htlcs: Vec<HTLCInfo2>, counterparty_commit_sig: &Signature, counterparty_htlc_sigs: &Vec<Signature>) -> (r: Result<(), Status>)
        ensures r.is_ok() ==> chan_validated_holder(old(self)@, commitment_number, feerate_per_kw, to_holder_value_sat, to_counterparty_value_sat, offered_htlcs@, received_htlcs@,
                    *counterparty_commit_sig, counterparty_htlc_sigs@, final(self)@),
                r.is_err() ==> final(self)@ == old(self)@,
    { unimplemented!() }
    #[verifier::external_body]
    pub fn validate_holder_commitment_tx(&mut self, tx: &Transaction, output_witscripts: &Vec<Vec<u8>>, commitment_number: u64, feerate_per_kw: u32,
        offered_htlcs: Vec<HTLCInfo2>, received_htlcs: Vec<HTLCInfo2>, counterparty_commit_sig: &Signature, counterparty_htlc_sigs: &Vec<Signature>) -> (r: Result<(), Status>)
        ensures r.is_ok() ==> chan_validated_holder_raw(old(self)@, *tx, contents(output_witscripts@), commitment_number, feerate_per_kw, offered_htlcs@, received_htlcs@,
                    *counterparty_commit_sig, counterparty_htlc_sigs@, final(self)@),
                r.is_err() ==> final(self)@ == old(self)@,
    { unimplemented!() }
    #[verifier::external_body]
    pub fn revoke_previous_holder_commitment(&mut self, new_current_commitment_number: u64) -> (r: Result<(PublicKey, Option<SecretKey>), Status>)
        ensures chan_revoked(old(self)@, new_current_commitment_number, r, final(self)@) { unimplemented!() }
    #[verifier::external_body]
    pub fn activate_initial_commitment(&mut self) -> (r: Result<PublicKey, Status>) ensures chan_activated(old(self)@, r, final(self)@) { unimplemented!() }
    #[verifier::external_body]
    pub fn sign_mutual_close_tx_phase2(&mut self, to_holder_value_sat: u64, to_counterparty_value_sat: u64, holder_script: &Option<ScriptBuf>,
        counterparty_script: &Option<ScriptBuf>, holder_wallet_path_hint: &VxPath) -> (r: Result<Signature, Status>)
        ensures chan_signed_mutual_close2(old(self)@, to_holder_value_sat, to_counterparty_value_sat, *holder_script, *counterparty_script, *holder_wallet_path_hint, r, final(self)@)
    { unimplemented!() }
}
// wire forms of what goes into replies
pub uninterp spec fn wire_of_secret(s: SecretKey) -> DisclosedSecret;
pub uninterp spec fn wire_of_point(p: PublicKey) -> PubKey;
#[verifier::external_body] pub fn vx_disclose(s: Option<SecretKey>) -> (r: Option<DisclosedSecret>)
    ensures r.is_some() == s.is_some(), s.is_some() ==> r->Some_0 == wire_of_secret(s->Some_0) { unimplemented!() }
#[verifier::external_body] pub fn vx_wire_of_point(p: PublicKey) -> (r: PubKey) ensures r == wire_of_point(p) { unimplemented!() }
pub open spec fn sigs_of_wire(s: Seq<BitcoinSignature>) -> Seq<Signature> { s.map_values(|b: BitcoinSignature| sig_of_wire(b.signature)) }
// `m.htlc_signatures.iter().map(CLOSURE).collect()`, CLOSURE = htlc_sig_from_wire below (std semantics: each element mapped, in order)
#[verifier::external_body] pub fn vx_htlc_sigs_from_wire(a: &VxSigArray) -> (r: Vec<Signature>) ensures r@ == a.v@.map_values(|b: BitcoinSignature| spec_htlc_sig_from_wire(b)) { unimplemented!() }
pub open spec fn spec_htlc_sig_from_wire(b: BitcoinSignature) -> Signature { sig_of_wire(b.signature) }
// ScriptBuf::from(bytes) / derivation path of a wire hint
#[verifier::external_body] pub struct Octets { _p: u8 }
#[verifier::external_body] pub struct VxPathHint { _p: u8 }
#[verifier::external_body] pub struct VxPath { _p: u8 }
impl Octets {
    pub uninterp spec fn bytes(&self) -> Seq<u8>;
    #[verifier::external_body] pub fn is_empty(&self) -> (r: bool) ensures r == (self.bytes().len() == 0) { unimplemented!() }
    #[verifier::external_body] pub fn len(&self) -> (r: usize) ensures r == self.bytes().len() { unimplemented!() }
}
pub uninterp spec fn script_of_bytes(b: Seq<u8>) -> ScriptBuf;
pub uninterp spec fn path_of_hint(h: VxPathHint) -> VxPath;
#[verifier::external_body] pub fn vx_script_from(b: &Octets) -> (r: ScriptBuf) ensures r == script_of_bytes(b.bytes()) { unimplemented!() }
#[verifier::external_body] pub fn to_derivation_path(h: &VxPathHint) -> (r: VxPath) ensures r == path_of_hint(*h) { unimplemented!() }
pub open spec fn script_opt_of(b: Octets) -> Option<ScriptBuf> { if b.bytes().len() == 0 { None } else { Some(script_of_bytes(b.bytes())) } }

//@fn vls-protocol-signer/src/handler.rs :: - :: to_script props=C07
    ensures r == script_opt_of(*bytes),                                                                       //[C07.handler.empty-script-means-no-output]
//@sigsub /&Vec<u8>/ => &Octets
//@sub /ScriptBuf::from\(bytes\.clone\(\)\)/ => vx_script_from(bytes)
//@end
#[verifier::external_body]
pub fn vx_clone_htlcs(v: &Vec<HTLCInfo2>) -> (r: Vec<HTLCInfo2>) ensures r@ == v@ { unimplemented!() }

pub struct SignRemoteCommitmentTx2 { pub remote_per_commitment_point: PubKey, pub commitment_number: u64, pub feerate: u32, pub to_local_value_sat: u64,
    pub to_remote_value_sat: u64, pub htlcs: VxHtlcArray }
pub struct ValidateRevocation { pub commitment_number: u64, pub commitment_secret: DisclosedSecret }
// WithSize<Transaction> / WithSize<PsbtWrapper>: the transaction and the PSBT the message carries
// bitcoin::Psbt as far as the handler reads it: the per-output maps with their optional witness script
#[verifier::external_body] pub struct VxPsbtRest { _p: u8 }
pub struct VxPsbtOutput { pub witness_script: Option<ScriptBuf>, pub rest: VxPsbtRest }
pub struct VxPsbt { pub outputs: Vec<VxPsbtOutput>, pub rest: VxPsbtRest }
pub struct VxPsbtWrapper { pub inner: VxPsbt }
pub uninterp spec fn script_bytes(s: ScriptBuf) -> Seq<u8>;
pub uninterp spec fn empty_script() -> ScriptBuf;
impl ScriptBuf {
    #[verifier::external_body] pub fn new() -> (r: ScriptBuf) ensures r == empty_script() { unimplemented!() }
    #[verifier::external_body] pub fn vx_to_bytes(&self) -> (r: Vec<u8>) ensures r@ == script_bytes(*self) { unimplemented!() }     // s[..].to_bytes()
}
// the witness script of every PSBT output, as bytes, in output order (the empty script when an output has none)
pub open spec fn witscript_of(o: VxPsbtOutput) -> ScriptBuf { match o.witness_script { Some(s) => s, None => empty_script() } }
pub open spec fn psbt_witscripts(p: VxPsbt) -> Seq<Seq<u8>> { Seq::new(p.outputs@.len(), |k: int| script_bytes(spec_witscript_pick(p.outputs@[k]))) }
pub open spec fn spec_witscript_pick(o: VxPsbtOutput) -> ScriptBuf { witscript_of(o) }
// the byte contents of a vector of byte vectors
pub open spec fn contents(s: Seq<Vec<u8>>) -> Seq<Seq<u8>> { Seq::new(s.len(), |k: int| s[k]@) }
// `psbt.outputs.iter().map(F).map(G).collect()` (std semantics: G(F(o)) for every output, in order), F and G = the two lifted closures
#[verifier::external_body]
pub fn vx_map_map_collect(outputs: &Vec<VxPsbtOutput>) -> (r: Vec<Vec<u8>>)
    ensures r@.len() == outputs@.len(), forall|k: int| 0 <= k < outputs@.len() ==> (#[trigger] r@[k])@ == script_bytes(spec_witscript_pick(outputs@[k]))
{ unimplemented!() }

//@fn vls-protocol-signer/src/handler.rs :: - :: extract_psbt_witscripts exprclosure=1 as=witscript_pick_closure props=C04
//@sig fn witscript_pick_closure(o: &VxPsbtOutput) -> (r: ScriptBuf)
    ensures r == spec_witscript_pick(*o),
//@end
//@fn vls-protocol-signer/src/handler.rs :: - :: extract_psbt_witscripts exprclosure=2 as=witscript_bytes_closure props=C04
//@sig fn witscript_bytes_closure(s: ScriptBuf) -> (r: Vec<u8>)
    ensures r@ == script_bytes(s),
//@sub /s\[\.\.\]\.to_bytes\(\)/ => s.vx_to_bytes()
//@end
//@fn vls-protocol-signer/src/handler.rs :: - :: extract_psbt_witscripts props=C04
//@sigsub /&Psbt/ => &VxPsbt
    ensures
        contents(r@) == psbt_witscripts(*psbt),                                                  //[C04.handler.witscripts-are-the-psbt-outputs-in-order]
//@sub /(?s)psbt\.outputs\s*\.iter\(\)\s*\.map\(\|o\|[^\n]*\)\s*\.map\(\|s\|[^\n]*\)\s*\.collect\(\)/ => { let vx_r = vx_map_map_collect(&psbt.outputs); proof { assert(contents(vx_r@) =~= psbt_witscripts(*psbt)); } vx_r }
//@end
pub struct SignRemoteCommitmentTx { pub tx: Transaction, pub psbt: VxPsbtWrapper, pub remote_funding_key: PubKey, pub remote_per_commitment_point: PubKey,
    pub option_static_remotekey: bool, pub commitment_number: u64, pub htlcs: VxHtlcArray, pub feerate: u32 }
pub struct SignLocalCommitmentTx2 { pub commitment_number: u64 }
pub struct ValidateCommitmentTx2 { pub commitment_number: u64, pub feerate: u32, pub to_local_value_sat: u64, pub to_remote_value_sat: u64, pub htlcs: VxHtlcArray,
    pub signature: BitcoinSignature, pub htlc_signatures: VxSigArray }
pub struct RevokeCommitmentTx { pub commitment_number: u64 }
pub struct VxTxWrap(pub Transaction);      // WithSize<Transaction>: `m.tx.0` is the transaction
pub struct ValidateCommitmentTx { pub tx: VxTxWrap, pub psbt: VxPsbtWrapper, pub htlcs: VxHtlcArray, pub commitment_number: u64, pub feerate: u32,
    pub signature: BitcoinSignature, pub htlc_signatures: VxSigArray }
pub struct GetPerCommitmentPoint { pub commitment_number: u64 }
pub struct CheckFutureSecret { pub commitment_number: u64, pub secret: DisclosedSecret }
pub struct SignMutualCloseTx2 { pub to_local_value_sat: u64, pub to_remote_value_sat: u64, pub local_script: Octets, pub remote_script: Octets, pub local_wallet_path_hint: VxPathHint }
pub struct ChannelHandler { pub node: VxNodeH, pub channel_id: ChannelId, pub protocol_version: u32, pub rest: VxHandlerRest }

// replies: the reply carries exactly this answer
pub uninterp spec fn reply_sig_with_htlcs(sig: Signature, htlc_sigs: Seq<Signature>) -> VxReply;
pub uninterp spec fn reply_commitment_sig(sig: Signature) -> VxReply;
pub uninterp spec fn reply_revocation_validated() -> VxReply;
#[verifier::external_body] pub fn vx_reply_sig_with_htlcs(sig: Signature, htlc_sigs: Vec<Signature>) -> (r: VxReply) ensures r == reply_sig_with_htlcs(sig, htlc_sigs@) { unimplemented!() }
#[verifier::external_body] pub fn vx_reply_commitment_sig(sig: BitcoinSignature) -> (r: VxReply) ensures forall|s: Signature| sig == wire_of_sig(s) ==> r == reply_commitment_sig(s) { unimplemented!() }
pub uninterp spec fn reply_validate_commitment(next_point: PubKey, old_secret: Option<DisclosedSecret>) -> VxReply;
pub uninterp spec fn reply_revoke_commitment(next_point: PubKey, old_secret: DisclosedSecret) -> VxReply;
pub uninterp spec fn reply_sign_tx(sig: Signature) -> VxReply;
pub uninterp spec fn reply_point(point: PubKey, secret: Option<DisclosedSecret>) -> VxReply;
#[verifier::external_body] pub fn vx_reply_point(point: PubKey, secret: Option<DisclosedSecret>) -> (r: VxReply) ensures r == reply_point(point, secret) { unimplemented!() }
#[verifier::external_body] pub fn vx_reply_validate_commitment(next_point: PubKey, old_secret: Option<DisclosedSecret>) -> (r: VxReply) ensures r == reply_validate_commitment(next_point, old_secret) { unimplemented!() }
#[verifier::external_body] pub fn vx_reply_revoke_commitment(next_point: PubKey, old_secret: DisclosedSecret) -> (r: VxReply) ensures r == reply_revoke_commitment(next_point, old_secret) { unimplemented!() }
#[verifier::external_body] pub fn vx_reply_sign_tx(sig: BitcoinSignature) -> (r: VxReply) ensures forall|s: Signature| sig == wire_of_sig(s) ==> r == reply_sign_tx(s) { unimplemented!() }
#[verifier::external_body] pub fn vx_reply_revocation_validated() -> (r: VxReply) ensures r == reply_revocation_validated() { unimplemented!() }

impl ChannelHandler {

// ------------------------------------------------ SignRemoteCommitmentTx2
//@fn vls-protocol-signer/src/handler.rs :: impl Handler for ChannelHandler :: do_handle closure=1 after="Message::SignRemoteCommitmentTx2\(m\) =>" as=sign_remote_commitment_tx2_closure props=C03,C04
//@sig fn sign_remote_commitment_tx2_closure(&self, chan: &mut VxChan, m: &SignRemoteCommitmentTx2, remote_per_commitment_point: PublicKey, commit_num: u64, feerate_sat_per_kw: u32, offered_htlcs: &Vec<HTLCInfo2>, received_htlcs: &Vec<HTLCInfo2>) -> (r: Result<(Signature, Vec<Signature>), Status>)
    // what holds of the captured variables where the closure is created (a proof obligation at the with_channel expression of the arm):
    // whether the closure reads the message or the local copied from it makes no difference
    requires self.sign_remote2_captured(*m, remote_per_commitment_point, commit_num, feerate_sat_per_kw, offered_htlcs@, received_htlcs@),
    ensures
        chan_signed_cp2(old(chan)@, key_of_wire(m.remote_per_commitment_point), m.commitment_number, m.feerate, m.to_local_value_sat, m.to_remote_value_sat,
            htlcs_offered_by_peer(m.htlcs.v@), htlcs_offered_by_node(m.htlcs.v@), r, final(chan)@),                   //[C04.handler.sign-remote2-closure-one-call-with-the-captured-values]
//@sub /offered_htlcs\.clone\(\)/ => vx_clone_htlcs(offered_htlcs)
//@sub /received_htlcs\.clone\(\)/ => vx_clone_htlcs(received_htlcs)
//@end

    pub open spec fn sign_remote2_captured(&self, m: SignRemoteCommitmentTx2, point: PublicKey, n: u64, feerate: u32, offered: Seq<HTLCInfo2>, received: Seq<HTLCInfo2>) -> bool {
        point == key_of_wire(m.remote_per_commitment_point) && n == m.commitment_number && feerate == m.feerate
        && offered == htlcs_offered_by_peer(m.htlcs.v@) && received == htlcs_offered_by_node(m.htlcs.v@)
    }
    // `self.node.with_channel(&self.channel_id, CLOSURE)` of the arm, CLOSURE = the function above (arguments = the variables it captures;
    // precondition = the closure's precondition, postcondition = the closure's on the channel registered under self.channel_id)
    #[verifier::external_body]
    pub fn vx_with_channel_sign_remote2(&self, m: &SignRemoteCommitmentTx2, remote_per_commitment_point: PublicKey, commit_num: u64, feerate_sat_per_kw: u32,
        offered_htlcs: &Vec<HTLCInfo2>, received_htlcs: &Vec<HTLCInfo2>) -> (r: Result<(Signature, Vec<Signature>), Status>)
        requires self.sign_remote2_captured(*m, remote_per_commitment_point, commit_num, feerate_sat_per_kw, offered_htlcs@, received_htlcs@),
        ensures r.is_ok() ==> exists|c0: VxChanView, c1: VxChanView| node_channel(self.node, self.channel_id, c0)
            && #[trigger] chan_signed_cp2(c0, key_of_wire(m.remote_per_commitment_point), m.commitment_number, m.feerate, m.to_local_value_sat, m.to_remote_value_sat,
                htlcs_offered_by_peer(m.htlcs.v@), htlcs_offered_by_node(m.htlcs.v@), r, c1)
    { unimplemented!() }

//@fn vls-protocol-signer/src/handler.rs :: impl Handler for ChannelHandler :: do_handle arm="Message::SignRemoteCommitmentTx2\(m\)" as=arm_sign_remote_commitment_tx2 props=C03,C04,C06,C05
//@sig fn arm_sign_remote_commitment_tx2(&self, m: SignRemoteCommitmentTx2) -> (r: Result<VxReply, Status>)
    ensures
        // a reply means: the channel registered under THIS handler's id signed counterparty commitment number m.commitment_number
        // for the point, fee rate and balances of the message (to_local = the holder's), with the peer's HTLCs as the ones the
        // counterparty OFFERS and this node's HTLCs as the ones it RECEIVES - and the reply carries exactly the signatures the
        // channel returned
        r.is_ok() ==> exists|c0: VxChanView, c1: VxChanView, sig: Signature, hs: Vec<Signature>| node_channel(self.node, self.channel_id, c0)
            && #[trigger] chan_signed_cp2(c0, key_of_wire(m.remote_per_commitment_point), m.commitment_number, m.feerate, m.to_local_value_sat, m.to_remote_value_sat,
                htlcs_offered_by_peer(m.htlcs.v@), htlcs_offered_by_node(m.htlcs.v@), Ok((sig, hs)), c1)                 //[C03.handler.sign-remote2-number-and-point-of-the-message] [C04.handler.sign-remote2-content-of-the-message] [C06.handler.sign-remote2-htlc-directions] [C05.handler.sign-remote2-content-of-the-message]
            && r->Ok_0 == reply_sig_with_htlcs(sig, hs@),                                                            //[C04.handler.sign-remote2-reply-carries-the-channels-signatures]
//@sub /(?s)self\.node\.with_channel\(&self\.channel_id, \|chan\| \{.*?\n\s*\}\)\?/ => self.vx_with_channel_sign_remote2(&m, remote_per_commitment_point, commit_num, feerate_sat_per_kw, &offered_htlcs, &received_htlcs)?
//@sub /(?s)Ok\(Box::new\(msgs::SignCommitmentTxWithHtlcsReply \{\s*signature: to_bitcoin_sig\(sig\),\s*htlc_signatures: Array\(\s*htlc_sigs\.into_iter\(\)\.map\(\|s\| to_bitcoin_sig\(s\)\)\.collect\(\),?\s*\),?\s*\}\)\)/ => Ok(vx_reply_sig_with_htlcs(sig, htlc_sigs))
//@sub /extract_htlcs\(&m\.htlcs\)/ => extract_htlcs(m.htlcs.v.as_slice())
//@end

// ------------------------------------------------ ValidateRevocation
//@fn vls-protocol-signer/src/handler.rs :: impl Handler for ChannelHandler :: do_handle closure=1 after="Message::ValidateRevocation\(m\) =>" as=validate_revocation_closure props=C03
//@sig fn validate_revocation_closure(&self, chan: &mut VxChan, revoke_num: u64, old_secret: SecretKey) -> (r: Result<(), Status>)
    ensures chan_validated_cp_revocation(old(chan)@, revoke_num, old_secret, r, final(chan)@),               //[C03.handler.validate-revocation-closure-one-call]
//@end

    #[verifier::external_body]
    pub fn vx_with_channel_validate_revocation(&self, revoke_num: u64, old_secret: SecretKey) -> (r: Result<(), Status>)
        ensures r.is_ok() ==> exists|c0: VxChanView, c1: VxChanView| node_channel(self.node, self.channel_id, c0)
            && #[trigger] chan_validated_cp_revocation(c0, revoke_num, old_secret, r, c1)
    { unimplemented!() }

//@fn vls-protocol-signer/src/handler.rs :: impl Handler for ChannelHandler :: do_handle arm="Message::ValidateRevocation\(m\)" as=arm_validate_revocation props=C03
//@sig fn arm_validate_revocation(&self, m: ValidateRevocation) -> (r: Result<VxReply, Status>)
    ensures
        // "revocation accepted" is answered only if the channel of this handler accepted the message's secret for the message's number
        r.is_ok() ==> exists|c0: VxChanView, c1: VxChanView| node_channel(self.node, self.channel_id, c0)
            && #[trigger] chan_validated_cp_revocation(c0, m.commitment_number, secret_of_wire(m.commitment_secret), Ok(()), c1),   //[C03.handler.validate-revocation-number-and-secret-of-the-message]
//@sub /(?s)self\.node\.with_channel\(&self\.channel_id, \|chan\| \{.*?\n\s*\}\)\?/ => self.vx_with_channel_validate_revocation(revoke_num, old_secret)?
//@sub /Ok\(Box::new\(msgs::ValidateRevocationReply \{\}\)\)/ => Ok(vx_reply_revocation_validated())
//@end

// ------------------------------------------------ SignLocalCommitmentTx2
//@fn vls-protocol-signer/src/handler.rs :: impl Handler for ChannelHandler :: do_handle closure=1 after="Message::SignLocalCommitmentTx2\(m\) =>" as=sign_local_commitment_tx2_closure props=C02
//@sig fn sign_local_commitment_tx2_closure(&self, chan: &mut VxChan, m: &SignLocalCommitmentTx2) -> (r: Result<Signature, Status>)
    ensures chan_signed_holder2(old(chan)@, m.commitment_number, r, final(chan)@),                             //[C02.handler.sign-local2-closure-one-call]
//@end

    #[verifier::external_body]
    pub fn vx_with_channel_sign_local2(&self, m: &SignLocalCommitmentTx2) -> (r: Result<Signature, Status>)
        ensures r.is_ok() ==> exists|c0: VxChanView, c1: VxChanView| node_channel(self.node, self.channel_id, c0)
            && #[trigger] chan_signed_holder2(c0, m.commitment_number, r, c1)
    { unimplemented!() }

//@fn vls-protocol-signer/src/handler.rs :: impl Handler for ChannelHandler :: do_handle arm="Message::SignLocalCommitmentTx2\(m\)" as=arm_sign_local_commitment_tx2 props=C02
//@sig fn arm_sign_local_commitment_tx2(&self, m: SignLocalCommitmentTx2) -> (r: Result<VxReply, Status>)
    ensures
        // the holder's signature in the reply is the channel's answer to sign_holder_commitment_tx_phase2 for the message's number
        // (which signs only the current commitment and marks the channel closed, unit channel_holder)
        r.is_ok() ==> exists|c0: VxChanView, c1: VxChanView, sig: Signature| node_channel(self.node, self.channel_id, c0)
            && #[trigger] chan_signed_holder2(c0, m.commitment_number, Ok(sig), c1) && r->Ok_0 == reply_commitment_sig(sig),     //[C02.handler.sign-local2-goes-through-the-channel-with-the-messages-number]
//@sub /(?s)self\.node\.with_channel\(&self\.channel_id, \|chan\| \{.*?\n\s*\}\)\?/ => self.vx_with_channel_sign_local2(&m)?
//@sub /Ok\(Box::new\(msgs::SignCommitmentTxReply \{ signature: (.*?) \}\)\)/ => Ok(vx_reply_commitment_sig(\1))
//@end

// ------------------------------------------------ ValidateCommitmentTx2
//@fn vls-protocol-signer/src/handler.rs :: impl Handler for ChannelHandler :: do_handle closure=1 after="Message::ValidateCommitmentTx2\(m\) =>" as=htlc_sig_from_wire props=C01
//@sig fn htlc_sig_from_wire(&self, s: &BitcoinSignature) -> (r: Signature)
    ensures r == spec_htlc_sig_from_wire(*s),
//@end

//@fn vls-protocol-signer/src/handler.rs :: impl Handler for ChannelHandler :: do_handle closure=2 after="Message::ValidateCommitmentTx2\(m\) =>" as=validate_commitment_tx2_closure props=C01
//@sig fn validate_commitment_tx2_closure(&self, chan: &mut VxChan, m: &ValidateCommitmentTx2, commit_num: u64, feerate_sat_per_kw: u32, offered_htlcs: &Vec<HTLCInfo2>, received_htlcs: &Vec<HTLCInfo2>, commit_sig: Signature, htlc_sigs: Vec<Signature>) -> (r: Result<(PublicKey, Option<SecretKey>), Status>)
    requires m.commitment_number < u64::MAX, self.validate2_captured(*m, commit_num, feerate_sat_per_kw, offered_htlcs@, received_htlcs@, commit_sig, htlc_sigs@),
    ensures
        r.is_ok() ==> exists|mid: VxChanView| #[trigger] chan_validated_holder(old(chan)@, m.commitment_number, m.feerate, m.to_local_value_sat, m.to_remote_value_sat,
                htlcs_offered_by_node(m.htlcs.v@), htlcs_offered_by_peer(m.htlcs.v@), sig_of_wire(m.signature.signature), sigs_of_wire(m.htlc_signatures.v@), mid)
            && (r->Ok_0.1.is_some() ==> self.protocol_version < PROTOCOL_VERSION_REVOKE && chan_revoked(mid, m.commitment_number, r, final(chan)@)),
//@sub /offered_htlcs\.clone\(\)/ => vx_clone_htlcs(offered_htlcs)
//@sub /received_htlcs\.clone\(\)/ => vx_clone_htlcs(received_htlcs)
//@end

    // what the closure above guarantees, on the channel registered under this handler's id (c0 before, mid after the validation, c1 after
    // the closure)
    pub open spec fn validate2_done(&self, n: u64, feerate: u32, to_local: u64, to_remote: u64, offered: Seq<HTLCInfo2>, received: Seq<HTLCInfo2>, sig: Signature,
        htlc_sigs: Seq<Signature>, r: Result<(PublicKey, Option<SecretKey>), Status>) -> bool {
        exists|c0: VxChanView, mid: VxChanView| node_channel(self.node, self.channel_id, c0)
            && #[trigger] chan_validated_holder(c0, n, feerate, to_local, to_remote, offered, received, sig, htlc_sigs, mid)
            && (r->Ok_0.1.is_some() ==> self.protocol_version < PROTOCOL_VERSION_REVOKE && exists|c1: VxChanView| #[trigger] chan_revoked(mid, n, r, c1))
    }
    pub open spec fn validate2_captured(&self, m: ValidateCommitmentTx2, n: u64, feerate: u32, offered: Seq<HTLCInfo2>, received: Seq<HTLCInfo2>, sig: Signature, htlc_sigs: Seq<Signature>) -> bool {
        n == m.commitment_number && feerate == m.feerate && offered == htlcs_offered_by_node(m.htlcs.v@) && received == htlcs_offered_by_peer(m.htlcs.v@)
        && sig == sig_of_wire(m.signature.signature) && htlc_sigs == sigs_of_wire(m.htlc_signatures.v@)
    }
    #[verifier::external_body]
    pub fn vx_with_channel_validate2(&self, m: &ValidateCommitmentTx2, commit_num: u64, feerate_sat_per_kw: u32, offered_htlcs: &Vec<HTLCInfo2>, received_htlcs: &Vec<HTLCInfo2>,
        commit_sig: Signature, htlc_sigs: &Vec<Signature>) -> (r: Result<(PublicKey, Option<SecretKey>), Status>)
        requires m.commitment_number < u64::MAX, self.validate2_captured(*m, commit_num, feerate_sat_per_kw, offered_htlcs@, received_htlcs@, commit_sig, htlc_sigs@),
        ensures r.is_ok() ==> self.validate2_done(m.commitment_number, m.feerate, m.to_local_value_sat, m.to_remote_value_sat, htlcs_offered_by_node(m.htlcs.v@), htlcs_offered_by_peer(m.htlcs.v@),
            sig_of_wire(m.signature.signature), sigs_of_wire(m.htlc_signatures.v@), r)
    { unimplemented!() }

//@fn vls-protocol-signer/src/handler.rs :: impl Handler for ChannelHandler :: do_handle arm="Message::ValidateCommitmentTx2\(m\)" as=arm_validate_commitment_tx2 props=C01,C06,C05
//@sig fn arm_validate_commitment_tx2(&self, m: ValidateCommitmentTx2) -> (r: Result<VxReply, Status>)
    requires m.commitment_number < u64::MAX,
    ensures
        // a reply means: the channel of this handler accepted holder commitment number m.commitment_number with the fee rate, balances
        // and HTLCs of the message (this node's HTLCs as the ones the holder OFFERS) and with the counterparty signatures of the message,
        // each HTLC signature in its place; a secret in the reply is the channel's revocation answer for exactly that number
        r.is_ok() ==> exists|p: PublicKey, os: Option<SecretKey>|
            #[trigger] self.validate2_done(m.commitment_number, m.feerate, m.to_local_value_sat, m.to_remote_value_sat,
                htlcs_offered_by_node(m.htlcs.v@), htlcs_offered_by_peer(m.htlcs.v@), sig_of_wire(m.signature.signature), sigs_of_wire(m.htlc_signatures.v@), Ok((p, os)))   //[C01.handler.validate2-content-and-signatures-of-the-message] [C06.handler.validate2-htlc-directions] [C05.handler.validate2-content-of-the-message] [C01.handler.validate2-reply-secret-is-the-revocation-of-this-number]
            && r->Ok_0 == reply_validate_commitment(wire_of_point(p), if os.is_some() { Some(wire_of_secret(os->Some_0)) } else { None }),
//@sub /(?s)m\s*\.htlc_signatures\s*\.iter\(\)\s*\.map\(\|s\| \{.*?\n\s*\}\)\s*\.collect\(\);/ => vx_htlc_sigs_from_wire(&m.htlc_signatures);
//@sub /(?s)self\.node\.with_channel\(&self\.channel_id, \|chan\| \{.*\n\s*\}\)\?;/ => self.vx_with_channel_validate2(&m, commit_num, feerate_sat_per_kw, &offered_htlcs, &received_htlcs, commit_sig, &htlc_sigs)?;
//@sub /(?s)Ok\(Box::new\(msgs::ValidateCommitmentTxReply \{\s*next_per_commitment_point: (.*?),\s*old_commitment_secret: (\w+),\s*\}\)\)/ => Ok(vx_reply_validate_commitment(\1, \2))
//@sub /extract_htlcs\(&m\.htlcs\)/ => extract_htlcs(m.htlcs.v.as_slice())
//@sub /let htlc_sigs: Vec<_> =/ => let htlc_sigs: Vec<Signature> =
//@proof before /let \(next_per_commitment_point, old_secret\) =/
        proof { assert(htlc_sigs@ =~= sigs_of_wire(m.htlc_signatures.v@)); }
//@end

// ------------------------------------------------ RevokeCommitmentTx
//@fn vls-protocol-signer/src/handler.rs :: impl Handler for ChannelHandler :: do_handle closure=1 after="Message::RevokeCommitmentTx\(m\) =>" as=revoke_commitment_tx_closure props=C01,C02
//@sig fn revoke_commitment_tx_closure(&self, chan: &mut VxChan, commit_num: u64) -> (r: Result<(PublicKey, Option<SecretKey>), Status>)
    requires commit_num < u64::MAX,
    ensures chan_revoked(old(chan)@, (commit_num + 1) as u64, r, final(chan)@),
//@end

    #[verifier::external_body]
    pub fn vx_with_channel_revoke(&self, commit_num: u64) -> (r: Result<(PublicKey, Option<SecretKey>), Status>)
        requires commit_num < u64::MAX,
        ensures r.is_ok() ==> exists|c0: VxChanView, c1: VxChanView| node_channel(self.node, self.channel_id, c0) && #[trigger] chan_revoked(c0, (commit_num + 1) as u64, r, c1)
    { unimplemented!() }

//@fn vls-protocol-signer/src/handler.rs :: impl Handler for ChannelHandler :: do_handle arm="Message::RevokeCommitmentTx\(m\)" as=arm_revoke_commitment_tx props=C01,C02 optclosures
//@sig fn arm_revoke_commitment_tx(&self, m: RevokeCommitmentTx) -> (r: Result<VxReply, Status>)
    requires m.commitment_number < u64::MAX,
    ensures
        // the secret in the reply is the channel's answer to revoke_previous_holder_commitment(n + 1) on this handler's channel,
        // n the message's number
        r.is_ok() ==> exists|c0: VxChanView, c1: VxChanView, p: PublicKey, s: SecretKey| node_channel(self.node, self.channel_id, c0)
            && #[trigger] chan_revoked(c0, (m.commitment_number + 1) as u64, Ok((p, Some(s))), c1)                                //[C01.handler.revoke-arm-secret-is-the-channels-answer-for-the-successor] [C02.handler.revoke-arm-goes-through-the-channel]
            && r->Ok_0 == reply_revoke_commitment(wire_of_point(p), wire_of_secret(s)),
//@sub /(?s)self\.node\.with_channel\(&self\.channel_id, \|chan\| \{.*?\n\s*\}\)\?;/ => self.vx_with_channel_revoke(commit_num)?;
// (rewrite R22 has turned `old_secret.map(|s| DisclosedSecret(..))` into a match before this rule applies)
//@sub /\(match old_secret \{ Some\(s\) => Some\(DisclosedSecret\(s\[\.\.\]\.try_into\(\)\.vx_expect\(\)\)\), None => None \}\)/ => vx_disclose(old_secret)
// (field shorthand: the two fields are named after the locals, in either order)
//@sub /(?s)Ok\(Box::new\(msgs::RevokeCommitmentTxReply \{\s*(?:next_per_commitment_point,\s*old_commitment_secret|old_commitment_secret,\s*next_per_commitment_point),?\s*\}\)\)/ => Ok(vx_reply_revoke_commitment(next_per_commitment_point, old_commitment_secret))
//@end

// ------------------------------------------------ SignMutualCloseTx2
//@fn vls-protocol-signer/src/handler.rs :: impl Handler for ChannelHandler :: do_handle closure=1 after="Message::SignMutualCloseTx2\(m\) =>" as=sign_mutual_close_tx2_closure props=C07,C02
//@sig fn sign_mutual_close_tx2_closure(&self, chan: &mut VxChan, m: &SignMutualCloseTx2, local_wallet_path_hint: VxPath) -> (r: Result<Signature, Status>)
    requires local_wallet_path_hint == path_of_hint(m.local_wallet_path_hint),        // holds where the closure is created (obligation at the arm's with_channel expression)
    ensures chan_signed_mutual_close2(old(chan)@, m.to_local_value_sat, m.to_remote_value_sat, script_opt_of(m.local_script), script_opt_of(m.remote_script),
        path_of_hint(m.local_wallet_path_hint), r, final(chan)@),                                                                                  //[C07.handler.close2-closure-one-call-holder-values-and-script-first]
//@end

    #[verifier::external_body]
    pub fn vx_with_channel_close2(&self, m: &SignMutualCloseTx2, local_wallet_path_hint: VxPath) -> (r: Result<Signature, Status>)
        requires local_wallet_path_hint == path_of_hint(m.local_wallet_path_hint),
        ensures r.is_ok() ==> exists|c0: VxChanView, c1: VxChanView| node_channel(self.node, self.channel_id, c0)
            && #[trigger] chan_signed_mutual_close2(c0, m.to_local_value_sat, m.to_remote_value_sat, script_opt_of(m.local_script), script_opt_of(m.remote_script), path_of_hint(m.local_wallet_path_hint), r, c1)
    { unimplemented!() }

//@fn vls-protocol-signer/src/handler.rs :: impl Handler for ChannelHandler :: do_handle arm="Message::SignMutualCloseTx2\(m\)" as=arm_sign_mutual_close_tx2 props=C07,C02
//@sig fn arm_sign_mutual_close_tx2(&self, m: SignMutualCloseTx2) -> (r: Result<VxReply, Status>)
    ensures
        // the closing signature in the reply is the channel's answer for the message's values and scripts, the LOCAL ones as the holder's
        r.is_ok() ==> exists|c0: VxChanView, c1: VxChanView, sig: Signature| node_channel(self.node, self.channel_id, c0)
            && #[trigger] chan_signed_mutual_close2(c0, m.to_local_value_sat, m.to_remote_value_sat, script_opt_of(m.local_script), script_opt_of(m.remote_script),
                path_of_hint(m.local_wallet_path_hint), Ok(sig), c1)                                                               //[C07.handler.close2-values-and-scripts-of-the-message]
            && r->Ok_0 == reply_sign_tx(sig),
//@sub /(?s)self\.node\.with_channel\(&self\.channel_id, \|chan\| \{.*?\n\s*\}\)\?/ => self.vx_with_channel_close2(&m, local_wallet_path_hint)?
//@sub /Ok\(Box::new\(msgs::SignTxReply \{ signature: (.*?) \}\)\)/ => Ok(vx_reply_sign_tx(\1))
//@end

// ------------------------------------------------ GetPerCommitmentPoint (the old protocol's implicit revocation)
//@fn vls-protocol-signer/src/handler.rs :: impl Handler for ChannelHandler :: do_handle closure=1 after="Message::GetPerCommitmentPoint\(m\) =>" as=get_per_commitment_point_closure props=C01
//@sig fn get_per_commitment_point_closure(&self, base: &mut VxChan, commitment_number: u64) -> (r: Result<(PublicKey, Option<SecretKey>), Status>)
    ensures
        final(base)@ == old(base)@,
        r.is_ok() && r->Ok_0.1.is_some() ==> self.protocol_version < PROTOCOL_VERSION_NO_SECRET && commitment_number >= 2
            && chan_secret(old(base)@, (commitment_number - 2) as u64, Ok(r->Ok_0.1->Some_0)),
        r.is_ok() ==> chan_point(old(base)@, commitment_number, Ok(r->Ok_0.0)),
//@end

    pub open spec fn get_point_done(&self, n: u64, r: Result<(PublicKey, Option<SecretKey>), Status>) -> bool {
        exists|c0: VxChanView| node_channel(self.node, self.channel_id, c0) && #[trigger] chan_point(c0, n, Ok(r->Ok_0.0))
            && (r->Ok_0.1.is_some() ==> self.protocol_version < PROTOCOL_VERSION_NO_SECRET && n >= 2 && chan_secret(c0, (n - 2) as u64, Ok(r->Ok_0.1->Some_0)))
    }
    #[verifier::external_body]
    pub fn vx_with_channel_base_get_point(&self, commitment_number: u64) -> (r: Result<(PublicKey, Option<SecretKey>), Status>)
        ensures r.is_ok() ==> self.get_point_done(commitment_number, r)
    { unimplemented!() }

//@fn vls-protocol-signer/src/handler.rs :: impl Handler for ChannelHandler :: do_handle arm="Message::GetPerCommitmentPoint\(m\)" as=arm_get_per_commitment_point props=C01
//@sig fn arm_get_per_commitment_point(&self, m: GetPerCommitmentPoint) -> (r: Result<VxReply, Status>)
    ensures
        // a secret in the reply is the answer of this handler's channel for exactly n - 2, n the message's number, given only
        // under the old protocol (the channel bounds its release by n - 2 + 2 <= next_holder_commit_num, unit channel_holder)
        r.is_ok() ==> exists|p: PublicKey, os: Option<SecretKey>| #[trigger] self.get_point_done(m.commitment_number, Ok((p, os)))          //[C01.handler.get-point-arm-secret-is-the-channels-answer-for-n-minus-2]
            && r->Ok_0 == reply_point(wire_of_point(p), if os.is_some() { Some(wire_of_secret(os->Some_0)) } else { None }),
//@sub /(?s)self\.node\.with_channel_base\(&self\.channel_id, \|base\| \{.*?\n\s*\}\);/ => self.vx_with_channel_base_get_point(commitment_number);
//@sub /core::result::Result<\(PublicKey, Option<SecretKey>\), status::Status>/ => Result<(PublicKey, Option<SecretKey>), Status>
//@sub /(?s)Ok\(Box::new\(msgs::GetPerCommitmentPointReply \{\s*point: (.*?),\s*secret: (\w+),\s*\}\)\)/ => Ok(vx_reply_point(\1, \2))
//@end

// ------------------------------------------------ CheckFutureSecret (an equality test on a secret the peer presents; answers a boolean)
//@fn vls-protocol-signer/src/handler.rs :: impl Handler for ChannelHandler :: do_handle closure=1 after="Message::CheckFutureSecret\(m\) =>" as=check_future_secret_closure props=C01,C10
//@sig fn check_future_secret_closure(&self, chan: &mut VxChan, m: &CheckFutureSecret, secret_key: SecretKey) -> (r: Result<bool, Status>)
    ensures
        // the request reads the channel and changes NOTHING of it - in particular not the holder commitment counter that bounds
        // which secrets may be released
        *final(chan) == *old(chan),                                                                            //[C01.handler.check-future-secret-changes-nothing] [C10.handler.check-future-secret-changes-nothing]
        chan_checked_future_secret(old(chan)@, m.commitment_number, secret_key, r),
//@end

// ------------------------------------------------ SignRemoteCommitmentTx (the raw-transaction entry point)
//@fn vls-protocol-signer/src/handler.rs :: impl Handler for ChannelHandler :: do_handle closure=1 after="Message::SignRemoteCommitmentTx\(m\) =>" as=sign_remote_commitment_tx_closure props=C04,C03
//@sig fn sign_remote_commitment_tx_closure(&self, chan: &mut VxChan, tx: Transaction, witscripts: Vec<Vec<u8>>, remote_per_commitment_point: PublicKey, commit_num: u64, feerate_sat_per_kw: u32, offered_htlcs: &Vec<HTLCInfo2>, received_htlcs: &Vec<HTLCInfo2>) -> (r: Result<Signature, Status>)
    ensures chan_signed_cp1(old(chan)@, tx, contents(witscripts@), remote_per_commitment_point, commit_num, feerate_sat_per_kw, offered_htlcs@, received_htlcs@, r, final(chan)@),   //[C04.handler.sign-remote1-closure-one-call-with-the-captured-values]
//@sub /offered_htlcs\.clone\(\)/ => vx_clone_htlcs(offered_htlcs)
//@sub /received_htlcs\.clone\(\)/ => vx_clone_htlcs(received_htlcs)
//@end

    pub open spec fn sign_remote1_done(&self, tx: Transaction, witscripts: Seq<Seq<u8>>, point: PublicKey, n: u64, feerate: u32, offered: Seq<HTLCInfo2>, received: Seq<HTLCInfo2>,
        r: Result<Signature, Status>) -> bool {
        exists|c0: VxChanView, c1: VxChanView| node_channel(self.node, self.channel_id, c0) && #[trigger] chan_signed_cp1(c0, tx, witscripts, point, n, feerate, offered, received, r, c1)
    }
    #[verifier::external_body]
    pub fn vx_with_channel_sign_remote1(&self, tx: &Transaction, witscripts: &Vec<Vec<u8>>, remote_per_commitment_point: PublicKey, commit_num: u64, feerate_sat_per_kw: u32,
        offered_htlcs: &Vec<HTLCInfo2>, received_htlcs: &Vec<HTLCInfo2>) -> (r: Result<Signature, Status>)
        ensures r.is_ok() ==> self.sign_remote1_done(*tx, contents(witscripts@), remote_per_commitment_point, commit_num, feerate_sat_per_kw, offered_htlcs@, received_htlcs@, r)
    { unimplemented!() }

//@fn vls-protocol-signer/src/handler.rs :: impl Handler for ChannelHandler :: do_handle arm="Message::SignRemoteCommitmentTx\(m\)" as=arm_sign_remote_commitment_tx props=C04,C03,C06
//@sig fn arm_sign_remote_commitment_tx(&self, m: SignRemoteCommitmentTx) -> (r: Result<VxReply, Status>)
    ensures
        // the raw entry point of the channel is handed THE transaction of the message (which it accepts only if it is the canonical
        // one, unit channel_cp), the witness scripts of the message's PSBT, and the number, point, fee rate and HTLCs of the message
        r.is_ok() ==> exists|sig: Signature| #[trigger] self.sign_remote1_done(m.tx, psbt_witscripts(m.psbt.inner), key_of_wire(m.remote_per_commitment_point), m.commitment_number, m.feerate,
                htlcs_offered_by_peer(m.htlcs.v@), htlcs_offered_by_node(m.htlcs.v@), Ok(sig))                      //[C04.handler.sign-remote1-transaction-and-content-of-the-message] [C03.handler.sign-remote1-number-and-point-of-the-message] [C06.handler.sign-remote1-htlc-directions]
            && r->Ok_0 == reply_sign_tx(sig),
//@sub /(?s)self\.node\.with_channel\(&self\.channel_id, \|chan\| \{.*?\n\s*\}\)\?/ => self.vx_with_channel_sign_remote1(&tx, &witscripts, remote_per_commitment_point, commit_num, feerate_sat_per_kw, &offered_htlcs, &received_htlcs)?
//@sub /Ok\(Box::new\(msgs::SignTxReply \{ signature: (.*?) \}\)\)/ => Ok(vx_reply_sign_tx(\1))
//@sub /extract_htlcs\(&m\.htlcs\)/ => extract_htlcs(m.htlcs.v.as_slice())
//@end

// ------------------------------------------------ ValidateCommitmentTx (holder commitment, raw-transaction form)
//@fn vls-protocol-signer/src/handler.rs :: impl Handler for ChannelHandler :: do_handle closure=1 after="Message::ValidateCommitmentTx\(m\) =>" as=htlc_sig_from_wire1 props=C01
//@sig fn htlc_sig_from_wire1(&self, s: &BitcoinSignature) -> (r: Signature)
    ensures r == spec_htlc_sig_from_wire(*s),
//@end

//@fn vls-protocol-signer/src/handler.rs :: impl Handler for ChannelHandler :: do_handle closure=2 after="Message::ValidateCommitmentTx\(m\) =>" as=validate_commitment_tx1_closure props=C01
//@sig fn validate_commitment_tx1_closure(&self, chan: &mut VxChan, tx: Transaction, witscripts: Vec<Vec<u8>>, commit_num: u64, feerate_sat_per_kw: u32, offered_htlcs: &Vec<HTLCInfo2>, received_htlcs: &Vec<HTLCInfo2>, commit_sig: Signature, htlc_sigs: Vec<Signature>) -> (r: Result<(PublicKey, Option<SecretKey>), Status>)
    requires commit_num < u64::MAX,
    ensures
        r.is_ok() ==> exists|mid: VxChanView| #[trigger] chan_validated_holder_raw(old(chan)@, tx, contents(witscripts@), commit_num, feerate_sat_per_kw, offered_htlcs@, received_htlcs@, commit_sig, htlc_sigs@, mid)
            && (r->Ok_0.1.is_some() ==> self.protocol_version < PROTOCOL_VERSION_REVOKE && chan_revoked(mid, commit_num, r, final(chan)@)),   //[C01.handler.validate1-secret-only-after-channel-accepted-this-commitment]
//@sub /offered_htlcs\.clone\(\)/ => vx_clone_htlcs(offered_htlcs)
//@sub /received_htlcs\.clone\(\)/ => vx_clone_htlcs(received_htlcs)
//@end

    pub open spec fn validate1_done(&self, tx: Transaction, witscripts: Seq<Seq<u8>>, n: u64, feerate: u32, offered: Seq<HTLCInfo2>, received: Seq<HTLCInfo2>, sig: Signature,
        htlc_sigs: Seq<Signature>, r: Result<(PublicKey, Option<SecretKey>), Status>) -> bool {
        exists|c0: VxChanView, mid: VxChanView| node_channel(self.node, self.channel_id, c0)
            && #[trigger] chan_validated_holder_raw(c0, tx, witscripts, n, feerate, offered, received, sig, htlc_sigs, mid)
            && (r->Ok_0.1.is_some() ==> self.protocol_version < PROTOCOL_VERSION_REVOKE && exists|c1: VxChanView| #[trigger] chan_revoked(mid, n, r, c1))
    }
    #[verifier::external_body]
    pub fn vx_with_channel_validate1(&self, tx: &Transaction, witscripts: &Vec<Vec<u8>>, commit_num: u64, feerate_sat_per_kw: u32, offered_htlcs: &Vec<HTLCInfo2>, received_htlcs: &Vec<HTLCInfo2>,
        commit_sig: Signature, htlc_sigs: &Vec<Signature>) -> (r: Result<(PublicKey, Option<SecretKey>), Status>)
        requires commit_num < u64::MAX,
        ensures r.is_ok() ==> self.validate1_done(*tx, contents(witscripts@), commit_num, feerate_sat_per_kw, offered_htlcs@, received_htlcs@, commit_sig, htlc_sigs@, r)
    { unimplemented!() }

//@fn vls-protocol-signer/src/handler.rs :: impl Handler for ChannelHandler :: do_handle arm="Message::ValidateCommitmentTx\(m\)" as=arm_validate_commitment_tx1 props=C01,C06
//@sig fn arm_validate_commitment_tx1(&self, m: ValidateCommitmentTx) -> (r: Result<VxReply, Status>)
    requires m.commitment_number < u64::MAX,
    ensures
        r.is_ok() ==> exists|p: PublicKey, os: Option<SecretKey>|
            #[trigger] self.validate1_done(m.tx.0, psbt_witscripts(m.psbt.inner), m.commitment_number, m.feerate,
                htlcs_offered_by_node(m.htlcs.v@), htlcs_offered_by_peer(m.htlcs.v@), sig_of_wire(m.signature.signature), sigs_of_wire(m.htlc_signatures.v@), Ok((p, os)))   //[C01.handler.validate1-transaction-content-and-signatures-of-the-message] [C06.handler.validate1-htlc-directions]
            && r->Ok_0 == reply_validate_commitment(wire_of_point(p), if os.is_some() { Some(wire_of_secret(os->Some_0)) } else { None }),
//@sub /(?s)m\s*\.htlc_signatures\s*\.iter\(\)\s*\.map\(\|s\| \{.*?\n\s*\}\)\s*\.collect\(\);/ => vx_htlc_sigs_from_wire(&m.htlc_signatures);
//@sub /(?s)self\.node\.with_channel\(&self\.channel_id, \|chan\| \{.*\n\s*\}\)\?;/ => self.vx_with_channel_validate1(&tx, &witscripts, commit_num, feerate_sat_per_kw, &offered_htlcs, &received_htlcs, commit_sig, &htlc_sigs)?;
//@sub /(?s)Ok\(Box::new\(msgs::ValidateCommitmentTxReply \{\s*next_per_commitment_point: (.*?),\s*old_commitment_secret: (\w+),\s*\}\)\)/ => Ok(vx_reply_validate_commitment(\1, \2))
//@sub /extract_htlcs\(&m\.htlcs\)/ => extract_htlcs(m.htlcs.v.as_slice())
//@sub /let htlc_sigs: Vec<_> =/ => let htlc_sigs: Vec<Signature> =
//@proof before /let old_secret_reply/
        proof { assert(htlc_sigs@ =~= sigs_of_wire(m.htlc_signatures.v@)); }
//@end

// ------------------------------------------------ GetPerCommitmentPoint2 (the new protocol's query: a point, never a secret)
//@fn vls-protocol-signer/src/handler.rs :: impl Handler for ChannelHandler :: do_handle closure=1 after="Message::GetPerCommitmentPoint2\(m\) =>" as=get_per_commitment_point2_closure props=C01
//@sig fn get_per_commitment_point2_closure(&self, base: &mut VxChan, commitment_number: u64) -> (r: Result<PublicKey, Status>)
    ensures
        *final(base) == *old(base),                                                                  //[C01.handler.get-point2-reads-only]
        chan_point(old(base)@, commitment_number, r),
//@end

} // impl

} // verus!
fn main() {}
