//@unit sv_setup
//@props C05
// Contracts on channel setup validation (SimpleValidator::{validate_delay, validate_setup_channel}) and on the
// on-chain validator's wrappers (vls-core/src/policy/onchain_validator.rs).
use vstd::prelude::*;
use vstd::std_specs::cmp::OrdSpec;
//@include prelude/core.rs
//@include prelude/deps.rs
//@include prelude/btc.rs
//@include frag/enforcement_types.rs
//@include prelude/channel_deps.rs
//@include prelude/ldk_tx.rs
//@include prelude/sv_deps.rs
//@include prelude/wallet.rs
//@map /Weak<Node>/ => VxNodeRef
//@map /Secp256k1<All>/ => VxSecp
//@map /\bPolicyFilter\b/ => VxPolicyFilter
//@map /&dyn Wallet/ => &VxWallet
//@map /Arc<dyn Validator>/ => SimpleValidator
//@map /!SAFE_COMMITMENT_TYPE\.contains\(&setup\.commitment_type\)/ => !vx_safe_commitment_type(setup.commitment_type)
verus! {

//@@TAGS

//@include frag/enforcement_spec.rs
//@include frag/channel_types.rs
//@include frag/channel_spec.rs
//@include frag/sv_types.rs
//@include frag/sv_spec.rs
//@type vls-core/src/policy/onchain_validator.rs :: OnchainPolicy
//@type vls-core/src/policy/onchain_validator.rs :: OnchainValidator

// SAFE_COMMITMENT_TYPE = [StaticRemoteKey, AnchorsZeroFeeHtlc]   (const slice; `.contains` is iterator code)
//@expectconst vls-core/src/policy/simple_validator.rs :: SAFE_COMMITMENT_TYPE :: &[CommitmentType::StaticRemoteKey, CommitmentType::AnchorsZeroFeeHtlc]
pub open spec fn safe_commitment_type(t: CommitmentType) -> bool {
    t == CommitmentType::StaticRemoteKey || t == CommitmentType::AnchorsZeroFeeHtlc
}
pub fn vx_safe_commitment_type(t: CommitmentType) -> (r: bool)
    ensures r == safe_commitment_type(t)
{
    t == CommitmentType::StaticRemoteKey || t == CommitmentType::AnchorsZeroFeeHtlc
}

// ------------------------------------------------------------------ spec side (from the property)
pub open spec fn delay_in_range(pol: SimplePolicy, delay: u32) -> bool { pol.min_delay <= delay && delay <= pol.max_delay }
// "a channel becomes usable only with a safe commitment type and both contest delays within policy"
pub open spec fn setup_within_policy(pol: SimplePolicy, w: VxWallet, setup: ChannelSetup, path: DerivationPath) -> bool {
    safe_commitment_type(setup.commitment_type)
    && delay_in_range(pol, setup.counterparty_selected_contest_delay as u32)
    && delay_in_range(pol, setup.holder_selected_contest_delay as u32)
    && (setup.holder_shutdown_script.is_some() ==> wallet_ok(w, setup.holder_shutdown_script->Some_0, path))
}
pub open spec fn setup_strict() -> bool {
    vx_strict(T_policy_channel_safe_type) && vx_strict(delay_tag("holder"@)) && vx_strict(delay_tag("counterparty"@))
    && vx_strict(T_policy_mutual_destination_allowlisted)
}

impl SimpleValidator {

//@fn vls-core/src/policy/simple_validator.rs :: impl SimpleValidator :: validate_delay props=C05
    ensures r.is_ok() && vx_strict(delay_tag(name@)) ==> delay_in_range(self.policy, delay),          //[C05.delay.range]
//@sub /let tag = vx_msg\(\);/ => let tag = vx_delay_tag(name);
//@end

//@fn vls-core/src/policy/simple_validator.rs :: impl Validator for SimpleValidator :: validate_setup_channel props=C05
    ensures
        r.is_ok() && setup_strict() ==> setup_within_policy(self.policy, *wallet, *setup, *holder_shutdown_key_path),   //[C05.setup.within-policy]
//@end

//@fn vls-core/src/policy/simple_validator.rs :: impl Validator for SimpleValidator :: validate_counterparty_commitment_tx mode=trusted
//@include frag/c/sv_validate_counterparty_commitment_tx.rs
        r.is_ok() && c05_strict() && height_sane(*cstate) ==> commitment_within_policy(self.policy, *setup, *cstate, *info2, commit_num),
//@end
//@fn vls-core/src/policy/simple_validator.rs :: impl Validator for SimpleValidator :: validate_holder_commitment_tx mode=trusted
//@include frag/c/sv_validate_holder_commitment_tx.rs
        r.is_ok() && c05_strict() && height_sane(*cstate) ==> commitment_within_policy(self.policy, *setup, *cstate, *info2, commit_num),
//@end

} // impl

// "with the on-chain validator no new commitment beyond the initial one is accepted while the funding output is
//  unconfirmed or after a close is seen on chain"
pub open spec fn funding_live(p: OnchainPolicy, commit_num: u64, cstate: ChainState) -> bool {
    commit_num > 0 ==> cstate.funding_depth >= p.min_funding_depth && cstate.closing_depth == 0
}

impl OnchainValidator {

//@fn vls-core/src/policy/onchain_validator.rs :: impl OnchainValidator :: ensure_funding_buried_and_unspent props=C05
    ensures r.is_ok() && vx_strict(T_policy_commitment_spends_active_utxo) ==> funding_live(self.policy, commit_num, *cstate),   //[C05.onchain.funding-buried-and-unspent]
//@end

//@fn vls-core/src/policy/onchain_validator.rs :: impl Validator for OnchainValidator :: validate_counterparty_commitment_tx props=C05
    requires
        estate.next_counterparty_revoke_num <= COMMIT_LIMIT, estate.next_counterparty_commit_num <= COMMIT_LIMIT,
        commit_num <= COMMIT_LIMIT, height_sane(*cstate), htlc_lens_sane(*info2),
    ensures
        r.is_ok() && vx_strict(T_policy_commitment_spends_active_utxo) ==> funding_live(self.policy, commit_num, *cstate),     //[C05.onchain-cp.funding-live]
        // the simple validator's bounds are all still enforced (delegation)
        r.is_ok() && c05_strict() ==> commitment_within_policy(self.inner.policy, *setup, *cstate, *info2, commit_num),        //[C05.onchain-cp.delegates]
//@end

//@fn vls-core/src/policy/onchain_validator.rs :: impl Validator for OnchainValidator :: validate_holder_commitment_tx props=C05
    requires
        estate.next_holder_commit_num <= COMMIT_LIMIT, commit_num <= COMMIT_LIMIT, height_sane(*cstate), htlc_lens_sane(*info2),
    ensures
        // a NEW holder commitment (not a retry of the current one) needs live funding
        r.is_ok() && vx_strict(T_policy_commitment_spends_active_utxo) && estate.next_holder_commit_num <= commit_num
            ==> funding_live(self.policy, commit_num, *cstate),                                                               //[C05.onchain-holder.funding-live]
        r.is_ok() && c05_strict() ==> commitment_within_policy(self.inner.policy, *setup, *cstate, *info2, commit_num),        //[C05.onchain-holder.delegates]
//@end

//@fn vls-core/src/policy/onchain_validator.rs :: impl Validator for OnchainValidator :: is_ready props=C05
    ensures r == (cstate.funding_depth >= self.policy.min_funding_depth && cstate.closing_depth == 0),                         //[C05.onchain.is-ready]
//@end

} // impl

} // verus!
fn main() {}
