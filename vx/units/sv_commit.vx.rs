//@unit sv_commit
//@props C05 C02 C03 C06
// Contracts on SimpleValidator's commitment validation (vls-core/src/policy/simple_validator.rs)
// and the fee helpers in util/transaction_utils.rs.
use vstd::prelude::*;
use vstd::std_specs::cmp::OrdSpec;
//@include prelude/core.rs
//@include prelude/deps.rs
//@include prelude/btc.rs
//@include frag/enforcement_types.rs
//@include prelude/channel_deps.rs
//@include prelude/ldk_tx.rs
//@include prelude/sv_deps.rs
//@map /Weak<Node>/ => VxNodeRef
//@map /Secp256k1<All>/ => VxSecp
//@map /Secp256k1::/ => VxSecp::
//@map /\bPolicyFilter\b/ => VxPolicyFilter
//@map /AddedItemsIter<'a, HTLCInfo2>/ => VxAddedIter
//@map /tag: &str/ => tag: u64
verus! {

//@@TAGS

//@include frag/enforcement_spec.rs
//@include frag/channel_types.rs
//@include frag/channel_spec.rs
//@include frag/sv_types.rs
//@include frag/sv_spec.rs

pub spec const MSAT_BOUND: u64 = 0x4000_0000_0000_0000u64;

//@fn vls-core/src/util/transaction_utils.rs :: - :: estimate_feerate_per_kw props=C05,C08
    requires weight > 0,
    ensures r == feerate_sat(total_fee as nat, weight as nat),                                   //[C05.fee.range] [C08.fee.range]
//@end

//@fn vls-core/src/util/transaction_utils.rs :: - :: expected_commitment_tx_weight props=C05
    requires num_untrimmed_htlc <= 0x1_ffff_fffe,
    ensures r == commitment_weight(opt_anchors, num_untrimmed_htlc as nat), r > 0,
//@end

impl CommitmentInfo2 {
//@fn vls-core/src/tx/tx.rs :: impl CommitmentInfo2 :: value_to_parties props=C05
    ensures r.0 == info_holder_value(*self), r.1 == info_cp_value(*self),
//@end
//@fn vls-core/src/tx/tx.rs :: impl CommitmentInfo2 :: delta_offered_htlcs mode=trusted
//@end
//@fn vls-core/src/tx/tx.rs :: impl CommitmentInfo2 :: delta_received_htlcs mode=trusted
//@end
}

impl ChannelSetup {
//@fn vls-core/src/channel.rs :: impl ChannelSetup :: is_anchors props=C05
    ensures r == setup_is_anchors(*self),
//@end
//@fn vls-core/src/channel.rs :: impl ChannelSetup :: is_zero_fee_htlc props=C05
    ensures r == setup_is_zero_fee_htlc(*self),
//@end
//@fn vls-core/src/channel.rs :: impl ChannelSetup :: features mode=trusted
    ensures r == setup_features(*self),
//@end
}

impl EnforcementState {
//@fn vls-core/src/policy/validator.rs :: impl EnforcementState :: get_previous_counterparty_point mode=trusted
    requires self.next_counterparty_commit_num <= COMMIT_LIMIT, num <= COMMIT_LIMIT,
    ensures r == es_point_for(*self, num),
//@end
//@fn vls-core/src/policy/validator.rs :: impl EnforcementState :: get_previous_counterparty_commit_info mode=trusted
    requires self.next_counterparty_commit_num <= COMMIT_LIMIT, num <= COMMIT_LIMIT,
    ensures r == es_info_for(*self, num),
//@end
}

impl SimpleValidator {
    // policy values named in contracts shared with the units that only see `Arc<dyn Validator>`
    pub open spec fn vp_max_routing_fee_msat(&self) -> u64 { self.policy.max_routing_fee_msat }
    pub open spec fn vp_max_feerate_percentage(&self) -> u8 { self.policy.max_feerate_percentage }
    pub open spec fn vp_max_channel_size_sat(&self) -> u64 { self.policy.max_channel_size_sat }

//@fn vls-core/src/policy/simple_validator.rs :: impl SimpleValidator :: validate_expiry props=C05
    requires current_height <= 0x7fff_ffff,
    ensures
        r.is_ok() && vx_strict(T_policy_commitment_htlc_cltv_range) ==>
            expiry < MAX_CLTV_EXPIRY
            && (self.policy.use_chain_state ==> current_height + self.policy.min_delay <= expiry
                && expiry <= current_height + self.policy.max_delay),                            //[C05.expiry.range]
//@end

//@fn vls-core/src/policy/simple_validator.rs :: impl SimpleValidator :: validate_fee props=C05,C07
    requires weight > 0,
    ensures
        r.is_ok() ==> sum_outputs <= sum_inputs,                                                 //[C05.fee.no-underflow]
        r.is_ok() && vx_strict(tag) ==> feerate_in_range(self.policy, (sum_inputs - sum_outputs) as nat, weight as nat),   //[C05.fee.in-range]
//@end

//@fn vls-core/src/policy/simple_validator.rs :: impl SimpleValidator :: validate_commitment_tx props=C05
    requires height_sane(*cstate), htlc_lens_sane(*info),
    ensures
        r.is_ok() && c05_strict() ==> commitment_within_policy(self.policy, *setup, *cstate, *info, commit_num),   //[C05.commitment.within-policy]
        // even a permissive filter never lets the mathematical sums overflow or exceed the channel value
        r.is_ok() ==> info.to_broadcaster_value_sat + info.to_countersigner_value_sat
            + sum_htlcs(info.offered_htlcs@) + sum_htlcs(info.received_htlcs@) <= setup.channel_value_sat,        //[C05.commitment.value-conserved]
//@proof before /let offered_htlc_dust_limit = /
        proof {
            assert forall|w: u64| w <= 1000 implies #[trigger] (info.feerate_per_kw as u64 * w) <= 4294967295000 by {
                assert(info.feerate_per_kw as u64 * w <= 4294967295000) by(nonlinear_arith) requires w <= 1000, info.feerate_per_kw <= 0xffff_ffff;
            }
        }
//@loop 1 iter=it
        invariant
            height_sane(*cstate), policy == &self.policy,
            htlc_value_sat as nat == sum_htlcs(info.offered_htlcs@.take(it.index@ as int)),
            vx_strict(T_policy_commitment_htlc_cltv_range) && vx_strict(T_policy_commitment_outputs_trimmed) ==>
                htlcs_ok(self.policy, *cstate, info.offered_htlcs@.take(it.index@ as int), offered_htlc_dust_limit as nat),
//@proof after /htlc_value_sat = htlc_value_sat\.checked_add/ #1
            proof {
                let s = info.offered_htlcs@.take(it.index@ as int + 1);
                assert(s.drop_last() == info.offered_htlcs@.take(it.index@ as int));
                assert(s.last() == *htlc);
            }
//@loop 2 iter=it
        invariant
            height_sane(*cstate), policy == &self.policy,
            htlc_value_sat as nat == sum_htlcs(info.offered_htlcs@) + sum_htlcs(info.received_htlcs@.take(it.index@ as int)),
            vx_strict(T_policy_commitment_htlc_cltv_range) && vx_strict(T_policy_commitment_outputs_trimmed) ==>
                htlcs_ok(self.policy, *cstate, info.received_htlcs@.take(it.index@ as int), received_htlc_dust_limit as nat),
//@proof after /htlc_value_sat = htlc_value_sat\.checked_add/ #2
            proof {
                let s = info.received_htlcs@.take(it.index@ as int + 1);
                assert(s.drop_last() == info.received_htlcs@.take(it.index@ as int));
                assert(s.last() == *htlc);
            }
//@proof before /let received_htlc_dust_limit = /
        proof { assert(info.offered_htlcs@.take(info.offered_htlcs@.len() as int) == info.offered_htlcs@); }
//@proof before /if htlc_value_sat > policy\.max_htlc_value_sat/
        proof { assert(info.received_htlcs@.take(info.received_htlcs@.len() as int) == info.received_htlcs@); }
//@end

} // impl SimpleValidator

// impl Validator for SimpleValidator
impl SimpleValidator {

//@fn vls-core/src/policy/simple_validator.rs :: impl Validator for SimpleValidator :: validate_channel_value props=C05
//@include frag/c/sv_validate_channel_value.rs
//@end

//@fn vls-core/src/policy/simple_validator.rs :: impl Validator for SimpleValidator :: validate_counterparty_commitment_tx props=C03,C05
//@include frag/c/sv_validate_counterparty_commitment_tx.rs
        r.is_ok() && c05_strict() && height_sane(*cstate) ==> commitment_within_policy(self.policy, *setup, *cstate, *info2, commit_num),   //[C05.validate-cp.within-policy]
//@end

//@fn vls-core/src/policy/simple_validator.rs :: impl Validator for SimpleValidator :: validate_holder_commitment_tx props=C02,C05
//@include frag/c/sv_validate_holder_commitment_tx.rs
        r.is_ok() && c05_strict() && height_sane(*cstate) ==> commitment_within_policy(self.policy, *setup, *cstate, *info2, commit_num),   //[C05.validate-holder.within-policy]
//@end

//@fn vls-core/src/policy/simple_validator.rs :: impl Validator for SimpleValidator :: validate_counterparty_revocation props=C03
//@include frag/c/sv_validate_counterparty_revocation.rs
//@end

//@fn vls-core/src/policy/simple_validator.rs :: impl Validator for SimpleValidator :: validate_payment_balance props=C06
//@include frag/c/sv_validate_payment_balance.rs
//@sub /\.ok_or\(policy_error\(/ => .ok_or(policy_error::<u64, &str>(
//@sub /self\.policy\.max_feerate_percentage\.into\(\)/ => (self.policy.max_feerate_percentage as u64)
//@end

//@fn vls-core/src/policy/simple_validator.rs :: impl Validator for SimpleValidator :: validate_payment_cltv props=C06
    // with a filter that downgrades policy-routing-cltv-delta and incoming <= outgoing the subtraction below underflows
    // (panic in debug builds, wrap in release builds): outside the property's non-permissive scope
    requires vx_strict(T_policy_routing_cltv_delta) || incoming_cltv > outgoing_cltv,
    ensures
        r.is_ok() && vx_strict(T_policy_routing_cltv_delta) ==> incoming_cltv > outgoing_cltv
            && incoming_cltv - outgoing_cltv >= self.policy.cltv_delta,                                        //[C06.cltv.delta-at-least-policy]
//@end

//@fn vls-core/src/policy/simple_validator.rs :: impl Validator for SimpleValidator :: is_ready props=C05
    ensures r == (cstate.funding_depth > 0 && cstate.closing_depth == 0),
//@end

} // impl

} // verus!
fn main() {}
