//@unit secrets
//@props C03 C10
// Contracts on CounterpartyCommitmentSecrets (vls-core/src/policy/validator.rs): the compact
// BOLT-3 store of counterparty revocation secrets.
use vstd::prelude::*;
use vstd::std_specs::cmp::OrdSpec;
//@include prelude/core.rs
//@include prelude/hashes.rs
verus! {

//@type vls-core/src/policy/validator.rs :: CounterpartyCommitmentSecrets derive=Clone

//@include frag/secrets_spec.rs

// ------------------------------------------------------------------ code side
impl CounterpartyCommitmentSecrets {

//@fn vls-core/src/policy/validator.rs :: impl CounterpartyCommitmentSecrets :: new props=C03
    ensures r.old_secrets@.len() == 0,
//@end

//@fn vls-core/src/policy/validator.rs :: impl CounterpartyCommitmentSecrets :: place_secret props=C03
    ensures place_spec(idx, r),                                                              //[C03.secrets.place]
//@loop 1
        invariant forall|j: u8| j < i ==> !bit_set(idx, j),
//@end

//@fn vls-core/src/policy/validator.rs :: impl CounterpartyCommitmentSecrets :: get_min_seen_secret props=C03
    ensures r == min_seen(self.old_secrets@),                                                //[C03.secrets.min-seen]
//@proof after /let mut min = 1 << 48/
        proof { assert((1u64 << 48) == 0x1_0000_0000_0000u64) by(bit_vector); }
//@loop 1 iter=it
        invariant min == min_seen(self.old_secrets@.take(it.index@ as int)),
//@proof after /let \(_, idx\) = \*vx_ref/
            proof {
                let s = self.old_secrets@.take(it.index@ as int + 1);
                assert(s.drop_last() == self.old_secrets@.take(it.index@ as int));
                assert(s.last() == *vx_ref);
            }
//@proof before /^\s*min\s*$/
        proof { assert(self.old_secrets@.take(self.old_secrets@.len() as int) == self.old_secrets@); }
//@end

//@fn vls-core/src/policy/validator.rs :: impl CounterpartyCommitmentSecrets :: derive_secret props=C03
    requires bits <= 48,
    ensures r@ == derive_spec(secret@, bits, idx),                                           //[C03.secrets.derive]
//@loop 1
        invariant bits <= 48, res@ == derive_steps(secret@, bits, idx, i as nat),
//@proof before /res\[\(bitpos \/ 8\) as usize\] \^=/
                proof {
                    assert((bitpos & 7) < 8) by(bit_vector);
                    assert(bitpos / 8 < 32) by(nonlinear_arith) requires bitpos < 48;
                }
//@end

//@fn vls-core/src/policy/validator.rs :: impl CounterpartyCommitmentSecrets :: provide_secret props=C03,C10
//@include frag/c/secrets_provide_secret.rs
//@loop 1
        invariant
            pos <= 48, pos <= self.old_secrets@.len(), *self == *old(self),
            consistent_below(self.old_secrets@, secret, pos, i as int),
//@end

} // impl

} // verus!
fn main() {}
