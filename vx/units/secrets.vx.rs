//@unit secrets
//@props C03 C10
// Contracts on CounterpartyCommitmentSecrets (vls-core/src/policy/validator.rs): the compact
// BOLT-3 store of counterparty revocation secrets.
use vstd::prelude::*;
use vstd::std_specs::cmp::OrdSpec;
//@include prelude/core.rs
//@include prelude/hashes.rs
verus! {

//@type vls-core/src/policy/validator.rs :: CounterpartyCommitmentSecrets derive=Clone

// ------------------------------------------------------------------ spec side
pub open spec fn bit_set(idx: u64, b: u8) -> bool { idx & (1u64 << b) == (1u64 << b) }

// BOLT-3 "generate_from_seed" restricted to the low `bits` bits, `done` iterations performed
pub open spec fn flip_bit(s: Seq<u8>, bitpos: u8) -> Seq<u8> {
    s.update((bitpos / 8) as int, s[(bitpos / 8) as int] ^ (1u8 << (bitpos & 7)))
}
pub open spec fn derive_steps(secret: Seq<u8>, bits: u8, idx: u64, done: nat) -> Seq<u8>
    decreases done
{
    if done == 0 { secret } else {
        let prev = derive_steps(secret, bits, idx, (done - 1) as nat);
        let bitpos = (bits - done) as u8;
        if bit_set(idx, bitpos) { sha256_spec(flip_bit(prev, bitpos)) } else { prev }
    }
}
pub open spec fn derive_spec(secret: Seq<u8>, bits: u8, idx: u64) -> Seq<u8> {
    derive_steps(secret, bits, idx, bits as nat)
}

// position of a secret in the store: number of trailing zero bits of its index, capped at 48
pub open spec fn place_spec(idx: u64, r: u8) -> bool {
    r <= 48 && (r < 48 ==> bit_set(idx, r)) && (forall|j: u8| j < r ==> !bit_set(idx, j))
}

pub open spec fn min_seen(s: Seq<([u8; 32], u64)>) -> u64
    decreases s.len()
{
    if s.len() == 0 { 0x1_0000_0000_0000u64 } else {
        let m = min_seen(s.drop_last());
        if s.last().1 < m { s.last().1 } else { m }
    }
}

// the new secret re-derives every stored secret below its position (BOLT-3 consistency)
pub open spec fn consistent_below(store: Seq<([u8; 32], u64)>, secret: [u8; 32], pos: u8, upto: int) -> bool {
    forall|i: int| 0 <= i < upto ==> derive_spec(secret@, pos, (#[trigger] store[i]).1) == store[i].0@
}

// ------------------------------------------------------------------ code side
impl CounterpartyCommitmentSecrets {

//@fn vls-core/src/policy/validator.rs :: impl CounterpartyCommitmentSecrets :: new props=C03
    ensures r.old_secrets@.len() == 0,
//@end

//@fn vls-core/src/policy/validator.rs :: impl CounterpartyCommitmentSecrets :: place_secret props=C03
    ensures place_spec(idx, r),                                                              //[C03.secrets.place]
//@loop 1
        invariant forall|j: u8| j < i ==> !bit_set(idx, j),
//@end

//@fn vls-core/src/policy/validator.rs :: impl CounterpartyCommitmentSecrets :: get_min_seen_secret props=C03
    ensures r == min_seen(self.old_secrets@),                                                //[C03.secrets.min-seen]
//@proof after /let mut min = 1 << 48/
        proof { assert((1u64 << 48) == 0x1_0000_0000_0000u64) by(bit_vector); }
//@loop 1 iter=it
        invariant min == min_seen(self.old_secrets@.take(it.index@ as int)),
//@proof after /let \(_, idx\) = \*vx_ref/
            proof {
                let s = self.old_secrets@.take(it.index@ as int + 1);
                assert(s.drop_last() == self.old_secrets@.take(it.index@ as int));
                assert(s.last() == *vx_ref);
            }
//@proof before /^\s*min\s*$/
        proof { assert(self.old_secrets@.take(self.old_secrets@.len() as int) == self.old_secrets@); }
//@end

//@fn vls-core/src/policy/validator.rs :: impl CounterpartyCommitmentSecrets :: derive_secret props=C03
    requires bits <= 48,
    ensures r@ == derive_spec(secret@, bits, idx),                                           //[C03.secrets.derive]
//@loop 1
        invariant bits <= 48, res@ == derive_steps(secret@, bits, idx, i as nat),
//@proof before /res\[\(bitpos \/ 8\) as usize\] \^=/
                proof {
                    assert((bitpos & 7) < 8) by(bit_vector);
                    assert(bitpos / 8 < 32) by(nonlinear_arith) requires bitpos < 48;
                }
//@end

//@fn vls-core/src/policy/validator.rs :: impl CounterpartyCommitmentSecrets :: provide_secret props=C03,C10
    ensures
        // accepted only if consistent with every stored secret below its position
        r.is_ok() ==> exists|pos: u8| place_spec(idx, pos) && pos <= old(self).old_secrets@.len()
            && consistent_below(old(self).old_secrets@, secret, pos, pos as int),            //[C03.secrets.provide-consistent]
        // only the slot of this index may change, and only to this secret
        r.is_ok() ==> exists|pos: u8| place_spec(idx, pos) && (
            final(self).old_secrets@ == old(self).old_secrets@
            || (pos < old(self).old_secrets@.len() && final(self).old_secrets@ == old(self).old_secrets@.update(pos as int, (secret, idx)))
            || (pos == old(self).old_secrets@.len() && final(self).old_secrets@ == old(self).old_secrets@.push((secret, idx)))),   //[C03.secrets.provide-frame]
        r.is_err() ==> final(self).old_secrets@ == old(self).old_secrets@,                   //[C10.secrets.provide-err-frame]
//@loop 1
        invariant
            pos <= 48, pos <= self.old_secrets@.len(), *self == *old(self),
            consistent_below(self.old_secrets@, secret, pos, i as int),
//@end

} // impl

} // verus!
fn main() {}
