//@unit kvv_cloud
//@props C16 C10
// Contracts on the cloud-staged key-version-value store (vls-persist/src/kvv/cloud.rs) under the sequential
// mutex model: a transaction reads its own writes, never lowers a version relative to the local store, leaves
// the local store alone until commit, and commit hands exactly the logged mutations to the local store.
use vstd::prelude::*;
use vstd::std_specs::cmp::OrdSpec;
//@include prelude/core.rs
//@include prelude/seqmutex.rs
//@map /Mutex<Option<BTreeMap<String, \(u64, Vec<u8>\)>>>/ => VxSeqMutex<Option<VxStrMap>>
//@map /&BTreeMap<String, \(u64, Vec<u8>\)>/ => &VxStrMap
//@map /Mutex::new\(None\)/ => VxSeqMutex::new(None)
//@map /key\.to_string\(\)/ => vx_to_string(key)
//@map /let (mut )?commit_log_opt = self\.commit_log\.lock\(\)\.vx_expect\(\);/ => 
//@map /(?<![\w.])commit_log_opt\./ => self.commit_log.val.
//@map /\bSignerId\b/ => [u8; 16]
//@map /: &str = / => : &'static str = 
verus! {

pub enum Error { VersionMismatch, Other }
pub type StoreView = Map<Seq<char>, (u64, Vec<u8>)>;
pub struct KVV(pub String, pub (u64, Vec<u8>));

// the local store behind the cloud store: any KVVStore, specified by the contracts proved for MemoryKVVStore
pub trait KVVStore: Sized {
    spec fn kvv_view(&self) -> StoreView;
    fn get(&self, key: &str) -> (r: Result<Option<(u64, Vec<u8>)>, Error>)
        ensures
            r.is_ok() ==> (match r->Ok_0 { Some(vv) => self.kvv_view().dom().contains(key@) && vv.0 == self.kvv_view()[key@].0
                && vv.1@ == self.kvv_view()[key@].1@, None => !self.kvv_view().dom().contains(key@) });
    fn get_version(&self, key: &str) -> (r: Result<Option<u64>, Error>)
        ensures
            r.is_ok() ==> r->Ok_0 == (if self.kvv_view().dom().contains(key@) { Some(self.kvv_view()[key@].0) } else { None });
    spec fn signer_id_spec(&self) -> [u8; 16];
    fn signer_id(&self) -> (r: [u8; 16]) ensures r == self.signer_id_spec();
    fn put_batch(&mut self, kvvs: Vec<KVV>) -> (r: Result<(), Error>)
        ensures
            r.is_ok() ==> final(self).kvv_view() == batch_applied(old(self).kvv_view(), kvvs@, kvvs@.len() as int),
            r.is_err() ==> final(self).kvv_view() == old(self).kvv_view();
}
pub open spec fn batch_applied(m: StoreView, kvvs: Seq<KVV>, n: int) -> StoreView
    decreases n
{
    if n <= 0 { m } else { batch_applied(m, kvvs, n - 1).insert(kvvs[n - 1].0@, kvvs[n - 1].1) }
}
// `es` lists exactly the entries of the map m (each key once)
pub open spec fn entries_of(m: StoreView, es: Seq<(String, (u64, Vec<u8>))>) -> bool {
    (forall|i: int| 0 <= i < es.len() ==> m.dom().contains((#[trigger] es[i]).0@) && m[es[i].0@] == es[i].1)
    && (forall|k: Seq<char>| m.dom().contains(k) ==> exists|i: int| 0 <= i < es.len() && (#[trigger] es[i]).0@ == k)
    && (forall|i: int, j: int| 0 <= i < j < es.len() ==> (#[trigger] es[i]).0@ != (#[trigger] es[j]).0@)
}
// BTreeMap::into_iter consumed by a for loop (R18b): the entries in key order
#[verifier::external_body]
pub fn vx_entries(m: VxStrMap) -> (r: Vec<(String, (u64, Vec<u8>))>)
    ensures entries_of(m@, r@)
{ unimplemented!() }
pub open spec fn kvvs_of(es: Seq<(String, (u64, Vec<u8>))>) -> Seq<KVV> { es.map_values(|e: (String, (u64, Vec<u8>))| KVV(e.0, e.1)) }

//@type vls-persist/src/kvv/cloud.rs :: CloudKVVStore

//@const vls-persist/src/kvv/cloud.rs :: LAST_WRITER_KEY vis=pub
pub struct Mutations(pub Vec<(String, (u64, Vec<u8>))>);
impl Mutations {
    pub fn new() -> (r: Self) ensures r.0@.len() == 0 { Mutations(Vec::new()) }
    pub fn from_vec(mutations: Vec<(String, (u64, Vec<u8>))>) -> (r: Self) ensures r.0 == mutations { Mutations(mutations) }
}
// `commit_log_opt.as_ref().expect("not in transaction")`
#[verifier::external_body]
pub fn vx_log_ref(o: &Option<VxStrMap>) -> (r: &VxStrMap) requires o.is_some() ensures *r == o->Some_0 { o.as_ref().unwrap() }
// `commit_log.iter().map(|(k, (v, vv))| (k.clone(), (*v, vv.clone()))).collect()`: a copy of every entry, in key order
#[verifier::external_body]
pub fn vx_log_cloned(m: &VxStrMap) -> (r: Vec<(String, (u64, Vec<u8>))>)
    ensures entries_like(m@, r@), r@.len() == m@.dom().len(), m@.dom().finite()
{ unimplemented!() }
#[verifier::external_body]
pub fn vx_str_eq(a: &str, b: &str) -> (r: bool) ensures r == (a@ == b@) { a == b }
#[verifier::external_body]
pub fn vx_id_to_vec(id: [u8; 16]) -> (r: Vec<u8>) ensures r@ == id@ { id.to_vec() }
// `es` lists exactly the entries of m, each key once, with equal version and equal bytes
pub open spec fn entries_like(m: StoreView, es: Seq<(String, (u64, Vec<u8>))>) -> bool {
    (forall|i: int| 0 <= i < es.len() ==> m.dom().contains((#[trigger] es[i]).0@) && m[es[i].0@].0 == es[i].1.0 && m[es[i].0@].1@ == es[i].1.1@)
    && (forall|k: Seq<char>| m.dom().contains(k) ==> exists|i: int| 0 <= i < es.len() && (#[trigger] es[i]).0@ == k)
    && (forall|i: int, j: int| 0 <= i < j < es.len() ==> (#[trigger] es[i]).0@ != (#[trigger] es[j]).0@)
}
pub open spec fn mutations_reported(r: Mutations, m: StoreView) -> bool { entries_like(m, r.0@) }

pub open spec fn next_local_version(m: StoreView, k: Seq<char>) -> u64 { if m.dom().contains(k) { (m[k].0 + 1) as u64 } else { 0 } }
pub open spec fn log_view<L: KVVStore>(c: CloudKVVStore<L>) -> Option<StoreView> {
    match c.commit_log.val { Some(m) => Some(m@), None => None }
}

impl<L: KVVStore> CloudKVVStore<L> {

//@fn vls-persist/src/kvv/cloud.rs :: impl<L: KVVStore> CloudKVVStore<L> :: do_get_version props=C16
    ensures
        r.is_ok() ==> r->Ok_0 == (if commit_log@.dom().contains(key@) { Some(commit_log@[key@].0) }
            else if self.local.kvv_view().dom().contains(key@) { Some(self.local.kvv_view()[key@].0) } else { None }),   //[C16.cloud.version-reads-own-writes]
//@end

//@fn vls-persist/src/kvv/cloud.rs :: impl<L: KVVStore> KVVStore for CloudKVVStore<L> :: put_with_version props=C16,C10
//@sigsub /&self/ => &mut self
    requires old(self).commit_log.val.is_some(),       // outside a transaction the real code panics (abort)
    ensures
        // the local store is never touched before commit
        final(self).local.kvv_view() == old(self).local.kvv_view(),                                                      //[C16.cloud.local-untouched-until-commit]
        // a version below the local one, or the same version with different bytes, is refused ...
        r.is_ok() && old(self).local.kvv_view().dom().contains(key@) ==> version >= old(self).local.kvv_view()[key@].0
            && (version == old(self).local.kvv_view()[key@].0 ==> old(self).local.kvv_view()[key@].1@ == value@),        //[C16.cloud.never-lowers-version]
        // (from the property text: "never lowers a version") the version the backend itself reports for the key - its own
        // pending write if there is one (a transaction reads its own writes) - is not lowered by a write.  Failed on the
        // pinned tree (the check was made against the local store only): fix c0174ea
        log_view(*old(self))->Some_0.dom().contains(key@) ==> final(self).commit_log.val.is_some() && log_view(*final(self))->Some_0.dom().contains(key@)
            && log_view(*final(self))->Some_0[key@].0 >= log_view(*old(self))->Some_0[key@].0,                          //[C16.cloud.never-lowers-staged-version]
        // ... and a refused write leaves no pending mutation
        r.is_err() ==> log_view(*final(self)) == log_view(*old(self)),                                                   //[C10.kvv-cloud.put-err-no-pending]
        r.is_ok() ==> final(self).commit_log.val.is_some() && (
            log_view(*final(self))->Some_0 == log_view(*old(self))->Some_0.insert(key@, (version, value))
            || log_view(*final(self)) == log_view(*old(self))),                                                          //[C16.cloud.put-logs-exactly-this]
        // a write above the local version (or of a locally new key) IS staged: it becomes the pending mutation of the key
        r.is_ok() && (!old(self).local.kvv_view().dom().contains(key@) || version > old(self).local.kvv_view()[key@].0) ==>
            log_view(*final(self))->Some_0 == log_view(*old(self))->Some_0.insert(key@, (version, value)),                //[C16.cloud.higher-version-is-staged]
//@sub /let commit_log = self\.commit_log\.val\.as_mut\(\)\.vx_expect\(\);/ => 
//@sub /\bcommit_log\./ => self.commit_log.val.as_mut().vx_expect().
//@sub /existing\.1 != value/ => !vx_vec_eq(&existing.1, &value)
//@end

//@fn vls-persist/src/kvv/cloud.rs :: impl<L: KVVStore> CloudKVVStore<L> :: do_get props=C16
    ensures
        // a transaction reads its own writes by key, otherwise what the local store holds
        r.is_ok() ==> (match r->Ok_0 {
            Some(vv) => (if commit_log@.dom().contains(key@) { vv.0 == commit_log@[key@].0 && vv.1@ == commit_log@[key@].1@ }
                else { self.local.kvv_view().dom().contains(key@) && vv.0 == self.local.kvv_view()[key@].0
                    && vv.1@ == self.local.kvv_view()[key@].1@ }),
            None => !commit_log@.dom().contains(key@) && !self.local.kvv_view().dom().contains(key@) }),             //[C16.cloud.reads-own-writes]
//@sub /Ok\(Some\(\(\*v, vv\.clone\(\)\)\)\)/ => Ok(Some((*v, vx_clone_bytes(vv))))
//@end

//@fn vls-persist/src/kvv/cloud.rs :: impl<L: KVVStore> KVVStore for CloudKVVStore<L> :: put_batch props=C16,C10
//@sigsub /&self/ => &mut self
    requires old(self).commit_log.val.is_some(),
    ensures
        final(self).local.kvv_view() == old(self).local.kvv_view(),                                                      //[C16.cloud.batch-local-untouched]
//@sub /self\.put_with_version\(kvv\.0\.as_str\(\), kvv\.1 \.0, kvv\.1 \.1\)\?;/ => self.put_with_version(kvv.0.as_str(), kvv.1.0, kvv.1.1)?;
//@loop 1
            invariant self.commit_log.val.is_some(), self.local.kvv_view() == old(self).local.kvv_view(),
//@end

//@fn vls-persist/src/kvv/cloud.rs :: impl<L: KVVStore> KVVStore for CloudKVVStore<L> :: commit props=C16,C10
//@sigsub /&self/ => &mut self
    requires old(self).commit_log.val.is_some(),
    ensures
        final(self).commit_log.val.is_none(),
        // the local store changes only by committing exactly the logged mutations (each key once)
        r.is_ok() ==> exists|es: Seq<(String, (u64, Vec<u8>))>| entries_of(log_view(*old(self))->Some_0, es)
            && final(self).local.kvv_view() == batch_applied(old(self).local.kvv_view(), kvvs_of(es), es.len() as int),   //[C16.cloud.commit-exactly-the-log]
        r.is_err() ==> final(self).local.kvv_view() == old(self).local.kvv_view(),                                       //[C10.kvv-cloud.commit-err-local-unchanged]
//@sub /for \(key, \(version, vv\)\) in commit_log\.into_iter\(\)/ => let vx_es = vx_entries(commit_log); for vx_e in vx_es
//@sub /kvvs\.push\(KVV\(key, \(version, vv\)\)\);/ => kvvs.push(KVV(vx_e.0, vx_e.1));
//@loop 1 iter=it
            invariant
                kvvs@ == kvvs_of(vx_es@.take(it.index@ as int)),
                entries_of(log_view(*old(self))->Some_0, vx_es@),
                self.local.kvv_view() == old(self).local.kvv_view(), self.commit_log.val.is_none(),
//@proof before /kvvs\.push\(KVV\(vx_e\.0, vx_e\.1\)\);/
            proof {
                let k = it.index@ as int;
                assert(vx_es@.take(k + 1) =~= vx_es@.take(k).push(vx_es@[k]));
                assert(kvvs_of(vx_es@.take(k + 1)) =~= kvvs_of(vx_es@.take(k)).push(KVV(vx_es@[k].0, vx_es@[k].1)));
            }
//@proof before /self\.local\.put_batch\(kvvs\)\?;/
        proof { assert(vx_es@.take(vx_es@.len() as int) =~= vx_es@); }
//@end

//@fn vls-persist/src/kvv/cloud.rs :: impl<L: KVVStore> KVVStore for CloudKVVStore<L> :: put props=C16 optclosures
//@sigsub /&self/ => &mut self
    requires old(self).commit_log.val.is_some(),
        old(self).local.kvv_view().dom().contains(key@) ==> old(self).local.kvv_view()[key@].0 < u64::MAX,
    ensures
        final(self).local.kvv_view() == old(self).local.kvv_view(),                                                      //[C16.cloud.put-local-untouched]
        // the pending mutation of the key is the value at the version after the LOCAL (committed) one; several plain
        // writes of a key in one transaction share that version and the last one wins
        r.is_ok() ==> log_view(*final(self))->Some_0 == log_view(*old(self))->Some_0.insert(key@, (next_local_version(old(self).local.kvv_view(), key@), value)),   //[C16.cloud.put-stages-next-version]
//@end

//@fn vls-persist/src/kvv/cloud.rs :: impl<L: KVVStore> KVVStore for CloudKVVStore<L> :: delete props=C16
//@sigsub /&self/ => &mut self
    requires old(self).commit_log.val.is_some(),
        old(self).local.kvv_view().dom().contains(key@) ==> old(self).local.kvv_view()[key@].0 < u64::MAX,
    ensures
        final(self).local.kvv_view() == old(self).local.kvv_view(),                                                      //[C16.cloud.delete-local-untouched]
        // a delete stages the empty value (a tombstone) at the next version: never a lower one
        r.is_ok() ==> log_view(*final(self))->Some_0.dom().contains(key@)
            && log_view(*final(self))->Some_0[key@].0 == next_local_version(old(self).local.kvv_view(), key@)
            && log_view(*final(self))->Some_0[key@].1@ == Seq::<u8>::empty(),                                           //[C16.cloud.delete-is-a-tombstone]
//@end

//@fn vls-persist/src/kvv/cloud.rs :: impl<L: KVVStore> KVVStore for CloudKVVStore<L> :: get props=C16
    requires self.commit_log.val.is_some(),
    ensures
        // a transaction reads its own writes by key, otherwise what the local store holds
        r.is_ok() ==> (match r->Ok_0 {
            Some(vv) => (if log_view(*self)->Some_0.dom().contains(key@) { vv.0 == log_view(*self)->Some_0[key@].0 && vv.1@ == log_view(*self)->Some_0[key@].1@ }
                else { self.local.kvv_view().dom().contains(key@) && vv.0 == self.local.kvv_view()[key@].0 && vv.1@ == self.local.kvv_view()[key@].1@ }),
            None => !log_view(*self)->Some_0.dom().contains(key@) && !self.local.kvv_view().dom().contains(key@) }),     //[C16.cloud.get-reads-own-writes]
//@sub /let commit_log = self\.commit_log\.val\.as_ref\(\)\.vx_expect\(\);/ => let commit_log = vx_log_ref(&self.commit_log.val);
//@end

//@fn vls-persist/src/kvv/cloud.rs :: impl<L: KVVStore> KVVStore for CloudKVVStore<L> :: get_version props=C16
    requires self.commit_log.val.is_some(),
    ensures
        r.is_ok() ==> r->Ok_0 == (if log_view(*self)->Some_0.dom().contains(key@) { Some(log_view(*self)->Some_0[key@].0) }
            else if self.local.kvv_view().dom().contains(key@) { Some(self.local.kvv_view()[key@].0) } else { None }),   //[C16.cloud.get-version-reads-own-writes]
//@sub /let commit_log = self\.commit_log\.val\.as_ref\(\)\.vx_expect\(\);/ => let commit_log = vx_log_ref(&self.commit_log.val);
//@end

//@fn vls-persist/src/kvv/cloud.rs :: impl<L: KVVStore> KVVStore for CloudKVVStore<L> :: enter props=C16 optclosures
//@sigsub /&self/ => &mut self
    requires old(self).commit_log.val.is_none(),           // entering twice panics (abort)
        old(self).local.kvv_view().dom().contains(LAST_WRITER_KEY@) ==> old(self).local.kvv_view()[LAST_WRITER_KEY@].0 < u64::MAX,
    ensures
        final(self).local.kvv_view() == old(self).local.kvv_view(),                                                      //[C16.cloud.enter-local-untouched]
        // a transaction starts with exactly one pending mutation: the last-writer record at the version after the stored one
        r.is_ok() ==> final(self).commit_log.val.is_some() && log_view(*final(self))->Some_0.dom() =~= set![LAST_WRITER_KEY@]
            && log_view(*final(self))->Some_0[LAST_WRITER_KEY@].0 == next_local_version(old(self).local.kvv_view(), LAST_WRITER_KEY@)
            && log_view(*final(self))->Some_0[LAST_WRITER_KEY@].1@ == old(self).local.signer_id_spec()@,                 //[C16.cloud.enter-stages-last-writer]
        r.is_err() ==> final(self).commit_log.val.is_none(),
//@sub /let mut commit_log = self\.commit_log\.lock\(\)\.vx_expect\(\);/ => 
//@sub /commit_log\.is_none\(\)/ => self.commit_log.val.is_none()
//@sub /let mut log = BTreeMap::new\(\);/ => let mut log = VxStrMap::new();
//@sub /LAST_WRITER_KEY\.to_owned\(\)/ => vx_to_string(LAST_WRITER_KEY)
//@sub /self\.signer_id\(\)\.to_vec\(\)/ => vx_id_to_vec(self.local.signer_id())
//@sub /\*commit_log = Some\(log\);/ => self.commit_log.val = Some(log);
//@end

//@fn vls-persist/src/kvv/cloud.rs :: impl<L: KVVStore> KVVStore for CloudKVVStore<L> :: prepare props=C16
//@sigsub /&self/ => &mut self
    requires old(self).commit_log.val.is_some(),
    ensures
        final(self).local.kvv_view() == old(self).local.kvv_view(), final(self).commit_log.val.is_some(),
        // what is reported is exactly the pending mutations (each key once, with its pending version and bytes) and they
        // stay pending for commit - or nothing at all, and then nothing stays pending, when the last-writer record is alone
        (mutations_reported(r, log_view(*old(self))->Some_0) && log_view(*final(self)) == log_view(*old(self)))
        || (r.0@.len() == 0 && log_view(*old(self))->Some_0.dom().len() == 1 && log_view(*old(self))->Some_0.dom().contains(LAST_WRITER_KEY@)
            && log_view(*final(self))->Some_0 =~= Map::<Seq<char>, (u64, Vec<u8>)>::empty()),                          //[C16.cloud.prepare-reports-exactly-the-pending-mutations]
//@sub /let commit_log = self\.commit_log\.val\.as_mut\(\)\.vx_expect\(\);/ => 
//@sub /(?s)let mutations: Vec<_> =\s*commit_log\.iter\(\)\.map\(\|\(k, \(v, vv\)\)\| \(k\.clone\(\), \(\*v, vv\.clone\(\)\)\)\)\.collect\(\);/ => let mutations = vx_log_cloned(vx_log_ref(&self.commit_log.val));
//@sub /commit_log\.clear\(\);/ => self.commit_log.val.as_mut().vx_expect().clear();
//@sub /\(mutations\[0\]\.0\) == \(LAST_WRITER_KEY\)/ => vx_str_eq(mutations[0].0.as_str(), LAST_WRITER_KEY)
//@end

} // impl

#[verifier::external_body]
pub fn vx_clone_bytes(v: &Vec<u8>) -> (r: Vec<u8>) ensures r@ == v@ { v.clone() }

#[verifier::external_body]
pub fn vx_vec_eq(a: &Vec<u8>, b: &Vec<u8>) -> (r: bool) ensures r == (a@ == b@) { a == b }

} // verus!
fn main() {}
