//@unit enforcement
//@props C01 C02 C03 C10
// Contracts on the commitment counters: EnforcementState setters/getters and the Validator
// trait's default progression checks (vls-core/src/policy/validator.rs).
use vstd::prelude::*;
use vstd::std_specs::cmp::OrdSpec;
//@include prelude/core.rs
//@include prelude/deps.rs
//@include frag/enforcement_types.rs
verus! {

//@@TAGS

//@include frag/enforcement_spec.rs

// ------------------------------------------------------------------ code side
impl EnforcementState {

//@fn vls-core/src/policy/validator.rs :: impl EnforcementState :: set_next_holder_commit_num props=C01,C02
    requires old(self).next_holder_commit_num < COMMIT_LIMIT,
    ensures
        num == old(self).next_holder_commit_num + 1,                                        //[C01.es-set-holder.step-by-one]
        *final(self) == (EnforcementState {
            next_holder_commit_num: num,
            current_holder_commit_info: Some(current_commitment_info),
            current_counterparty_signatures: Some(counterparty_signatures),
            ..*old(self) }),                                                                //[C01.es-set-holder.frame]
//@end

//@fn vls-core/src/policy/validator.rs :: impl EnforcementState :: set_next_counterparty_commit_num props=C03
    requires old(self).next_counterparty_commit_num < COMMIT_LIMIT,
    ensures
        *final(self) == es_set_cp_commit(*old(self), num, current_point, current_commitment_info),   //[C03.es-set-cp-commit.exact]
//@end

//@fn vls-core/src/policy/validator.rs :: impl EnforcementState :: get_previous_counterparty_point props=C03
    requires self.next_counterparty_commit_num <= COMMIT_LIMIT, num <= COMMIT_LIMIT,
    ensures r == es_point_for(*self, num),                                                  //[C03.es-point-for.exact]
//@end

//@fn vls-core/src/policy/validator.rs :: impl EnforcementState :: get_previous_counterparty_commit_info props=C03
    requires self.next_counterparty_commit_num <= COMMIT_LIMIT, num <= COMMIT_LIMIT,
    ensures r == es_info_for(*self, num),                                                   //[C03.es-info-for.exact]
//@end

//@fn vls-core/src/policy/validator.rs :: impl EnforcementState :: set_next_counterparty_revoke_num props=C03
    requires num <= COMMIT_LIMIT,
    ensures
        num != 0,
        *final(self) == es_set_cp_revoke(*old(self), num),                                  //[C03.es-set-cp-revoke.exact]
//@end

//@fn vls-core/src/policy/validator.rs :: impl EnforcementState :: minimum_to_holder_value props=C07
    ensures r == es_min_to_holder(*self, epsilon_sat),                                      //[C07.min-to-holder.exact]
//@end

//@fn vls-core/src/policy/validator.rs :: impl EnforcementState :: minimum_to_counterparty_value props=C07
    ensures r == es_min_to_counterparty(*self, epsilon_sat),                                //[C07.min-to-counterparty.exact]
//@end

} // impl EnforcementState

pub trait Validator: Sized {

//@fn vls-core/src/policy/validator.rs :: trait Validator :: set_next_holder_commit_num props=C01,C02,C10
//@include frag/c/v_set_next_holder_commit_num.rs
//@end

//@fn vls-core/src/policy/validator.rs :: trait Validator :: get_current_holder_commitment_info props=C02,C10
//@include frag/c/v_get_current_holder_commitment_info.rs
//@end

//@fn vls-core/src/policy/validator.rs :: trait Validator :: set_next_counterparty_commit_num props=C03,C10
//@include frag/c/v_set_next_counterparty_commit_num.rs
//@end

//@fn vls-core/src/policy/validator.rs :: trait Validator :: set_next_counterparty_revoke_num props=C03,C10
//@include frag/c/v_set_next_counterparty_revoke_num.rs
//@end

//@fn vls-core/src/policy/validator.rs :: trait Validator :: validate_payment_cltv props=C06
//@include frag/c/v_validate_payment_cltv.rs
//@end

} // trait Validator

//@fn vls-core/src/policy/validator.rs :: - :: min_opt props=C06
    ensures r == spec_min_opt(a_opt, b_opt),
//@end

//@include lemmas/counters.rs

} // verus!
fn main() {}
