//@unit handler_withdraw
//@props C08
// Contract on the protocol handler's on-chain signing entry (vls-protocol-signer/src/handler.rs, RootHandler::sign_withdrawal):
// the one place that calls Node::unchecked_sign_onchain_tx.  What is decided: the unchecked signing call is reached only
// after Approve::handle_proposed_onchain (unit approver) answered Ok(true) for THIS transaction with THESE previous outputs,
// segwit flags and output paths; `Ok(false)` and every error end the request without a signature.  The collection of
// input paths / unilateral-close keys, the p2sh script_sig fill-in and the copying of witnesses into the PSBT are
// stubbed (they do not decide whether something is signed).
use vstd::prelude::*;
use vstd::std_specs::cmp::OrdSpec;
//@include prelude/core.rs
verus! {

//@@TAGS

#[verifier::external_body] pub struct Status { _p: u8 }
#[verifier::external_body] pub struct Transaction { _p: u8 }
#[verifier::external_body] pub struct TxOut { _p: u8 }
#[verifier::external_body] pub struct DerivationPath { _p: u8 }
#[verifier::external_body] pub struct VxUnicloseKey { _p: u8 }        // Option<(SecretKey, Vec<Vec<u8>>)>
#[verifier::external_body] pub struct VxUtxos { _p: u8 }              // Array<Utxo>
#[verifier::external_body] pub struct VxNodeH { _p: u8 }              // Arc<Node>
#[verifier::external_body] pub struct VxApprover { _p: u8 }           // Arc<dyn Approve>
#[verifier::external_body] pub struct VxPsbtRest { _p: u8 }
#[verifier::external_body] pub struct VxWitnesses { _p: u8 }          // Vec<Vec<Vec<u8>>>
pub struct VxPsbt { pub unsigned_tx: Transaction, pub rest: VxPsbtRest }
pub struct VxPsbtWrapper { pub inner: VxPsbt }
pub struct StreamedPSBT { pub psbt: VxPsbtWrapper, pub segwit_flags: Vec<bool> }
pub struct RootHandler { pub id: u64, pub node: VxNodeH, pub approver: VxApprover, pub protocol_version: u32 }

// call markers (see DESIGN section 6): the approval flow's answer, and the fact that the unchecked signing call was made
pub uninterp spec fn approval_of(a: VxApprover, n: VxNodeH, tx: Transaction, flags: Seq<bool>, prev_outs: Seq<TxOut>, opaths: Seq<DerivationPath>) -> Result<bool, Status>;
pub uninterp spec fn signed_unchecked(n: VxNodeH, tx: Transaction, prev_outs: Seq<TxOut>) -> bool;
pub uninterp spec fn status_of(msg: Seq<char>) -> Status;
impl VxApprover {
    #[verifier::external_body]
    pub fn handle_proposed_onchain(&self, node: &VxNodeH, tx: &Transaction, segwit_flags: &Vec<bool>, prev_outs: &Vec<TxOut>, uniclosekeys: &Vec<VxUnicloseKey>,
        opaths: &Vec<DerivationPath>) -> (r: Result<bool, Status>)
        ensures r == approval_of(*self, *node, *tx, segwit_flags@, prev_outs@, opaths@)
    { unimplemented!() }
}
impl VxNodeH {
    // the precondition is the point of this unit: nothing is signed unchecked that was not approved
    #[verifier::external_body]
    pub fn unchecked_sign_onchain_tx(&self, tx: &Transaction, ipaths: &Vec<DerivationPath>, prev_outs: &Vec<TxOut>, uniclosekeys: Vec<VxUnicloseKey>) -> (r: Result<VxWitnesses, Status>)
        requires exists|a: VxApprover, flags: Seq<bool>, opaths: Seq<DerivationPath>| approval_of(a, *self, *tx, flags, prev_outs@, opaths) == Ok::<bool, Status>(true),   //[C08.handler.signs-only-what-was-approved]
        ensures r.is_ok() ==> signed_unchecked(*self, *tx, prev_outs@)
    { unimplemented!() }
}
impl Status {
    #[verifier::external_body]
    pub fn failed_precondition(msg: &str) -> Status { unimplemented!() }
}
impl core::convert::From<Status> for Status2 { #[verifier::external_body] fn from(s: Status) -> Status2 { unimplemented!() } }
#[verifier::external_body] pub struct Status2 { _p: u8 }              // vls_protocol_signer::handler::Error
#[verifier::external_body]
pub fn vx_output_paths(p: &VxPsbt) -> Vec<DerivationPath> { unimplemented!() }
#[verifier::external_body]
pub fn vx_prev_outs(p: &VxPsbt) -> Vec<TxOut> { unimplemented!() }
impl RootHandler {
    // the loop that looks every input up among the wallet's utxos: derivation paths and unilateral-close keys
    #[verifier::external_body]
    pub fn vx_paths_and_keys(&self, tx: &Transaction, utxos: &VxUtxos) -> (r: Result<(Vec<VxUnicloseKey>, Vec<DerivationPath>), Status2>) { unimplemented!() }
}
// "Populate script_sig for p2sh-p2wpkh signing": changes the transaction's script_sigs BEFORE approval is asked
#[verifier::external_body]
pub fn vx_fill_script_sigs(p: &mut VxPsbt) { unimplemented!() }
#[verifier::external_body]
pub fn vx_install_witnesses(p: &mut VxPsbt, w: VxWitnesses) ensures final(p).unsigned_tx == old(p).unsigned_tx { unimplemented!() }

impl RootHandler {

//@fn vls-protocol-signer/src/handler.rs :: impl RootHandler :: sign_withdrawal props=C08
//@sigsub /utxos: Array<Utxo>/ => utxos: VxUtxos
//@sigsub /Result<\(\)>/ => Result<(), Status2>
    ensures
        // Ok: the approval flow said yes for the transaction as it was signed, and the node was asked to sign exactly that
        // (the segwit flags handed to the check are the ones the streamed decoder computed: unit psbt_stream)
        r.is_ok() ==> final(streamed).segwit_flags@ == old(streamed).segwit_flags@ && exists|prev_outs: Seq<TxOut>, opaths: Seq<DerivationPath>|
            approval_of(self.approver, self.node, final(streamed).psbt.inner.unsigned_tx, old(streamed).segwit_flags@, prev_outs, opaths) == Ok::<bool, Status>(true)
            && signed_unchecked(self.node, final(streamed).psbt.inner.unsigned_tx, prev_outs),                       //[C08.handler.ok-means-approved-and-signed]
//@sub /let psbt = &mut streamed\.psbt\.inner;/ =>
//@sub /let opaths = extract_psbt_output_paths\(&psbt\);/ => let opaths = vx_output_paths(&streamed.psbt.inner);
//@sub /let tx = &mut psbt\.unsigned_tx;/ =>
//@sub /(?s)let prev_outs = psbt\s*\.inputs\s*\.iter\(\).*?\.collect::<Vec<_>>\(\);/ => let prev_outs = vx_prev_outs(&streamed.psbt.inner);
//@sub /(?s)let secp_ctx = Secp256k1::new\(\);\s*let mut uniclosekeys = Vec::new\(\);\s*let mut ipaths = Vec::new\(\);\s*for input in tx\.input\.iter\(\) \{.*?\n        \}\n/ => let (uniclosekeys, ipaths) = self.vx_paths_and_keys(&streamed.psbt.inner.unsigned_tx, &utxos)?;\n
//@sub /(?s)for \(psbt_in, tx_in\) in psbt\.inputs\.iter_mut\(\)\.zip\(tx\.input\.iter_mut\(\)\) \{.*?\n        \}\n/ => vx_fill_script_sigs(&mut streamed.psbt.inner);\n
//@sub /&self\.node,\s*&tx,/ => &self.node, &streamed.psbt.inner.unsigned_tx,
//@sub /unchecked_sign_onchain_tx\(&tx,/ => unchecked_sign_onchain_tx(&streamed.psbt.inner.unsigned_tx,
//@sub /(?s)for \(i, \w+\) in witvec\.into_iter\(\)\.enumerate\(\) \{.*?\n        \}\n/ => vx_install_witnesses(&mut streamed.psbt.inner, witvec);\n
//@proof before /^\s*Ok\(\(\)\)\s*$/
        proof {
            assert(approval_of(self.approver, self.node, streamed.psbt.inner.unsigned_tx, streamed.segwit_flags@, prev_outs@, opaths@) == Ok::<bool, Status>(true));
            assert(signed_unchecked(self.node, streamed.psbt.inner.unsigned_tx, prev_outs@));
        }
//@end

}

} // verus!
fn main() {}
