//@unit kvv_memory
//@props C16 C10
// Contracts on the in-memory key-version-value store (vls-persist/src/kvv/memory.rs) under the sequential
// mutex model (prelude/seqmutex.rs): versions never roll back, same-version rewrites need identical bytes,
// batches are all-or-nothing, reads return the last accepted write.
use vstd::prelude::*;
use vstd::std_specs::cmp::OrdSpec;
//@include prelude/core.rs
//@include prelude/seqmutex.rs
//@map /Mutex<BTreeMap<String, \(u64, Vec<u8>\)>>/ => VxSeqMutex<VxStrMap>
//@map /Mutex::new\(BTreeMap::new\(\)\)/ => VxSeqMutex::new(VxStrMap::new())
//@map /key\.to_string\(\)/ => vx_to_string(key)
//@map /let (mut )?data = self\.data\.lock\(\)\.vx_expect\(\);/ => 
//@map /(?<![\w.])data\./ => self.data.val.
//@map /\bSignerId\b/ => [u8; 16]
verus! {

//@type vls-persist/src/kvv/memory.rs :: MemoryKVVStore
//@type vls-persist/src/kvv.rs :: KVV

pub enum Error { VersionMismatch, Other }

// ------------------------------------------------------------------ spec side (from the property)
pub type StoreView = Map<Seq<char>, (u64, Vec<u8>)>;
// a write (version, bytes) to key k is accepted iff the key is new, the version is higher, or it repeats the
// current version with identical content
pub open spec fn write_ok(m: StoreView, k: Seq<char>, version: u64, value: Seq<u8>) -> bool {
    !m.dom().contains(k) || version > m[k].0 || (version == m[k].0 && m[k].1@ == value)
}
pub open spec fn versions_monotone(a: StoreView, b: StoreView) -> bool {
    forall|k: Seq<char>| a.dom().contains(k) ==> b.dom().contains(k) && b[k].0 >= a[k].0
}
pub open spec fn batch_ok(m: StoreView, kvvs: Seq<KVV>) -> bool {
    forall|i: int| 0 <= i < kvvs.len() ==> write_ok(m, (#[trigger] kvvs[i]).0@, kvvs[i].1.0, kvvs[i].1.1@)
}
pub open spec fn batch_applied(m: StoreView, kvvs: Seq<KVV>, n: int) -> StoreView
    decreases n
{
    if n <= 0 { m } else { batch_applied(m, kvvs, n - 1).insert(kvvs[n - 1].0@, kvvs[n - 1].1) }
}

impl MemoryKVVStore {

//@fn vls-persist/src/kvv/memory.rs :: impl MemoryKVVStore :: new props=C16
    ensures r.data.val@ == Map::<Seq<char>, (u64, Vec<u8>)>::empty(),
//@end

//@fn vls-persist/src/kvv/memory.rs :: impl KVVStore for MemoryKVVStore :: get_version props=C16
//@sigsub /&self/ => &mut self
    ensures
        final(self).data.val@ == old(self).data.val@,
        r.is_ok(), r->Ok_0 == (if old(self).data.val@.dom().contains(key@) { Some(old(self).data.val@[key@].0) } else { None }),   //[C16.mem.get-version]
//@sub /self\.data\.val\.get\(key\)\.map\(\|\(v, _\)\| \*v\)/ => vx_version_of(self.data.val.get(key))
//@end

//@fn vls-persist/src/kvv/memory.rs :: impl KVVStore for MemoryKVVStore :: get props=C16
//@sigsub /&self/ => &mut self
    ensures
        final(self).data.val@ == old(self).data.val@,
        // reads return the last accepted write
        r.is_ok(), (match r->Ok_0 { Some(vv) => old(self).data.val@.dom().contains(key@) && vv.0 == old(self).data.val@[key@].0
                && vv.1@ == old(self).data.val@[key@].1@, None => !old(self).data.val@.dom().contains(key@) }),               //[C16.mem.get-last-write]
//@sub /self\.data\.val\.get\(key\)\.cloned\(\)/ => vx_cloned(self.data.val.get(key))
//@end

//@fn vls-persist/src/kvv/memory.rs :: impl KVVStore for MemoryKVVStore :: put_with_version props=C16,C10
//@sigsub /&self/ => &mut self
    ensures
        r.is_ok() == write_ok(old(self).data.val@, key@, version, value@),                                               //[C16.mem.put-rule]
        r.is_ok() ==> final(self).data.val@.dom().contains(key@) && final(self).data.val@[key@].0 == version
            && final(self).data.val@[key@].1@ == value@
            && forall|k: Seq<char>| k != key@ ==> (final(self).data.val@.dom().contains(k) == old(self).data.val@.dom().contains(k)
                && (old(self).data.val@.dom().contains(k) ==> final(self).data.val@[k] == old(self).data.val@[k])),      //[C16.mem.put-frame]
        r.is_err() ==> final(self).data.val@ == old(self).data.val@,                                                     //[C10.kvv-mem.put-err-frame]
        versions_monotone(old(self).data.val@, final(self).data.val@),                                                   //[C16.mem.versions-never-decrease]
//@sub /\*val (!=|==) value/ => (vx_vec_eq(val, &value) \1 true)
//@end

//@fn vls-persist/src/kvv/memory.rs :: impl KVVStore for MemoryKVVStore :: put_batch props=C16,C10
//@sigsub /&self/ => &mut self
    ensures
        // batched writes apply entirely or not at all
        r.is_ok() == batch_ok(old(self).data.val@, kvvs@),                                                                //[C16.mem.batch-rule]
        r.is_ok() ==> final(self).data.val@ == batch_applied(old(self).data.val@, kvvs@, kvvs@.len() as int),            //[C16.mem.batch-applied]
        r.is_err() ==> final(self).data.val@ == old(self).data.val@,                                                     //[C16.mem.batch-atomic] [C10.kvv-mem.batch-err-frame]
//@sub /let \(version, value\) = &kvv\.1;/ => let version = &kvv.1.0; let value = &kvv.1.1;
//@sub /val != value/ => !vx_vec_eq(val, value)
//@sub /self\.data\.val\.insert\(vx_to_string\(key\), kvv\.1\);/ => self.data.val.insert(key, kvv.1);
//@loop 1 iter=it
            invariant
                self.data.val == old(self).data.val,
                forall|i: int| 0 <= i < it.index@ ==> write_ok(self.data.val@, (#[trigger] kvvs@[i]).0@, kvvs@[i].1.0, kvvs@[i].1.1@),
//@loop 2 iter=it2
            invariant
                self.data.val@ == batch_applied(old(self).data.val@, kvvs@, it2.index@ as int),
//@end

} // impl

#[verifier::external_body]
pub fn vx_version_of(o: Option<&(u64, Vec<u8>)>) -> (r: Option<u64>)
    ensures r == (match o { Some(p) => Some(p.0), None => None })
{ o.map(|(v, _)| *v) }
#[verifier::external_body]
pub fn vx_cloned(o: Option<&(u64, Vec<u8>)>) -> (r: Option<(u64, Vec<u8>)>)
    ensures (match (o, r) { (Some(p), Some(q)) => p.0 == q.0 && p.1@ == q.1@, (None, None) => true, _ => false })
{ o.cloned() }
#[verifier::external_body]
pub fn vx_vec_eq(a: &Vec<u8>, b: &Vec<u8>) -> (r: bool) ensures r == (a@ == b@) { a == b }

} // verus!
fn main() {}
