//@unit kvv_memory
//@props C16 C10
// Contracts on the in-memory key-version-value store (vls-persist/src/kvv/memory.rs) under the sequential
// mutex model (prelude/seqmutex.rs): versions never roll back, same-version rewrites need identical bytes,
// batches are all-or-nothing, reads return the last accepted write.
use vstd::prelude::*;
use vstd::std_specs::cmp::OrdSpec;
//@include prelude/core.rs
//@include prelude/seqmutex.rs
//@map /Mutex<BTreeMap<String, \(u64, Vec<u8>\)>>/ => VxSeqMutex<VxStrMap>
//@map /Mutex::new\(BTreeMap::new\(\)\)/ => VxSeqMutex::new(VxStrMap::new())
//@map /key\.to_string\(\)/ => vx_to_string(key)
//@map /let (mut )?data = self\.data\.lock\(\)\.vx_expect\(\);/ => 
//@map /(?<![\w.])data\./ => self.data.val.
//@map /\bSignerId\b/ => [u8; 16]
verus! {

//@type vls-persist/src/kvv/memory.rs :: MemoryKVVStore
//@type vls-persist/src/kvv.rs :: KVV

pub enum Error { VersionMismatch, Other }

// ------------------------------------------------------------------ spec side (from the property)
pub type StoreView = Map<Seq<char>, (u64, Vec<u8>)>;
// a write (version, bytes) to key k is accepted iff the key is new, the version is higher, or it repeats the
// current version with identical content
pub open spec fn write_ok(m: StoreView, k: Seq<char>, version: u64, value: Seq<u8>) -> bool {
    !m.dom().contains(k) || version > m[k].0 || (version == m[k].0 && m[k].1@ == value)
}
pub open spec fn versions_monotone(a: StoreView, b: StoreView) -> bool {
    forall|k: Seq<char>| a.dom().contains(k) ==> b.dom().contains(k) && b[k].0 >= a[k].0
}
pub open spec fn batch_ok(m: StoreView, kvvs: Seq<KVV>) -> bool {
    forall|i: int| 0 <= i < kvvs.len() ==> write_ok(m, (#[trigger] kvvs[i]).0@, kvvs[i].1.0, kvvs[i].1.1@)
}
pub open spec fn batch_applied(m: StoreView, kvvs: Seq<KVV>, n: int) -> StoreView
    decreases n
{
    if n <= 0 { m } else { batch_applied(m, kvvs, n - 1).insert(kvvs[n - 1].0@, kvvs[n - 1].1) }
}

//@include frag/str_order.rs
// `data.range(prefix.to_string()..)`: the entries whose key is not below `prefix`, in ascending key order (std BTreeMap)
impl VxStrMap {
    #[verifier::external_body]
    pub fn vx_range_from(&self, from: &str) -> (r: Vec<(String, (u64, Vec<u8>))>)
        ensures
            forall|i: int| 0 <= i < r@.len() ==> self@.dom().contains((#[trigger] r@[i]).0@) && r@[i].1 == self@[r@[i].0@] && str_le(from@, r@[i].0@),
            forall|i: int, j: int| 0 <= i < j < r@.len() ==> str_lt((#[trigger] r@[i]).0@, (#[trigger] r@[j]).0@),
            forall|k: Seq<char>| #[trigger] self@.dom().contains(k) && str_le(from@, k) ==> exists|i: int| 0 <= i < r@.len() && (#[trigger] r@[i]).0@ == k,
    { unimplemented!() }
}
#[verifier::external_body]
pub fn vx_clone_vec(v: &Vec<u8>) -> (r: Vec<u8>) ensures r@ == v@ { v.clone() }
// `Iter(result.into_iter())`: the records in the order collected
pub struct VxIter(pub Vec<KVV>);
// what a prefix read must return: exactly the stored records whose key starts with the prefix, each once, with the
// stored version and bytes
pub open spec fn prefix_read_ok(m: StoreView, prefix: Seq<char>, out: Seq<KVV>) -> bool {
    &&& forall|i: int| 0 <= i < out.len() ==> m.dom().contains((#[trigger] out[i]).0@) && is_prefix(prefix, out[i].0@)
            && out[i].1.0 == m[out[i].0@].0 && out[i].1.1@ == m[out[i].0@].1@
    &&& forall|i: int, j: int| 0 <= i < j < out.len() ==> (#[trigger] out[i]).0@ != (#[trigger] out[j]).0@
    &&& forall|k: Seq<char>| #[trigger] m.dom().contains(k) && is_prefix(prefix, k) ==> exists|i: int| 0 <= i < out.len() && (#[trigger] out[i]).0@ == k
}

// the plain write: the next version of the key (0 for a new key), so it is always accepted and never lowers a version
pub open spec fn next_version(m: StoreView, k: Seq<char>) -> u64 { if m.dom().contains(k) { (m[k].0 + 1) as u64 } else { 0 } }
pub open spec fn put_effect(a: StoreView, b: StoreView, k: Seq<char>, value: Seq<u8>) -> bool {
    &&& b.dom().contains(k) && b[k].0 == next_version(a, k) && b[k].1@ == value
    &&& forall|j: Seq<char>| j != k ==> ((#[trigger] b.dom().contains(j)) == a.dom().contains(j) && (a.dom().contains(j) ==> b[j] == a[j]))
}

impl MemoryKVVStore {

//@fn vls-persist/src/kvv/memory.rs :: impl MemoryKVVStore :: new props=C16
    ensures r.data.val@ == Map::<Seq<char>, (u64, Vec<u8>)>::empty(),
//@end

//@fn vls-persist/src/kvv/memory.rs :: impl KVVStore for MemoryKVVStore :: get_version props=C16
//@sigsub /&self/ => &mut self
    ensures
        final(self).data.val@ == old(self).data.val@,
        r.is_ok(), r->Ok_0 == (if old(self).data.val@.dom().contains(key@) { Some(old(self).data.val@[key@].0) } else { None }),   //[C16.mem.get-version]
//@sub /self\.data\.val\.get\(key\)\.map\(\|\(v, _\)\| \*v\)/ => vx_version_of(self.data.val.get(key))
//@end

//@fn vls-persist/src/kvv/memory.rs :: impl KVVStore for MemoryKVVStore :: get props=C16
//@sigsub /&self/ => &mut self
    ensures
        final(self).data.val@ == old(self).data.val@,
        // reads return the last accepted write
        r.is_ok(), (match r->Ok_0 { Some(vv) => old(self).data.val@.dom().contains(key@) && vv.0 == old(self).data.val@[key@].0
                && vv.1@ == old(self).data.val@[key@].1@, None => !old(self).data.val@.dom().contains(key@) }),               //[C16.mem.get-last-write]
//@sub /self\.data\.val\.get\(key\)\.cloned\(\)/ => vx_cloned(self.data.val.get(key))
//@end

//@fn vls-persist/src/kvv/memory.rs :: impl KVVStore for MemoryKVVStore :: put_with_version props=C16,C10
//@sigsub /&self/ => &mut self
    ensures
        r.is_ok() == write_ok(old(self).data.val@, key@, version, value@),                                               //[C16.mem.put-rule]
        r.is_ok() ==> final(self).data.val@.dom().contains(key@) && final(self).data.val@[key@].0 == version
            && final(self).data.val@[key@].1@ == value@
            && forall|k: Seq<char>| k != key@ ==> ((#[trigger] final(self).data.val@.dom().contains(k)) == old(self).data.val@.dom().contains(k)
                && (old(self).data.val@.dom().contains(k) ==> final(self).data.val@[k] == old(self).data.val@[k])),      //[C16.mem.put-frame]
        r.is_err() ==> final(self).data.val@ == old(self).data.val@,                                                     //[C10.kvv-mem.put-err-frame]
        versions_monotone(old(self).data.val@, final(self).data.val@),                                                   //[C16.mem.versions-never-decrease]
//@sub /\*val (!=|==) value/ => (vx_vec_eq(val, &value) \1 true)
//@end

//@fn vls-persist/src/kvv/memory.rs :: impl KVVStore for MemoryKVVStore :: put_batch props=C16,C10
//@sigsub /&self/ => &mut self
    ensures
        // batched writes apply entirely or not at all
        r.is_ok() == batch_ok(old(self).data.val@, kvvs@),                                                                //[C16.mem.batch-rule]
        r.is_ok() ==> final(self).data.val@ == batch_applied(old(self).data.val@, kvvs@, kvvs@.len() as int),            //[C16.mem.batch-applied]
        r.is_err() ==> final(self).data.val@ == old(self).data.val@,                                                     //[C16.mem.batch-atomic] [C10.kvv-mem.batch-err-frame]
//@sub /let \(version, value\) = &kvv\.1;/ => let version = &kvv.1.0; let value = &kvv.1.1;
//@sub /val != value/ => !vx_vec_eq(val, value)
//@sub /self\.data\.val\.insert\(vx_to_string\(key\), kvv\.1\);/ => self.data.val.insert(key, kvv.1);
//@loop 1 iter=it
            invariant
                self.data.val == old(self).data.val,
                forall|i: int| 0 <= i < it.index@ ==> write_ok(self.data.val@, (#[trigger] kvvs@[i]).0@, kvvs@[i].1.0, kvvs@[i].1.1@),
//@loop 2 iter=it2
            invariant
                self.data.val@ == batch_applied(old(self).data.val@, kvvs@, it2.index@ as int),
//@end

//@fn vls-persist/src/kvv/memory.rs :: impl KVVStore for MemoryKVVStore :: put props=C16 optclosures
//@sigsub /&self/ => &mut self
    requires old(self).data.val@.dom().contains(key@) ==> old(self).data.val@[key@].0 < u64::MAX,     // v + 1 aborts (overflow check) at the last version
    ensures
        r.is_ok(), put_effect(old(self).data.val@, final(self).data.val@, key@, value@),              //[C16.mem.put-next-version]
        versions_monotone(old(self).data.val@, final(self).data.val@),                                //[C16.mem.put-versions-never-decrease]
//@end

//@fn vls-persist/src/kvv/memory.rs :: impl KVVStore for MemoryKVVStore :: delete props=C16
//@sigsub /&self/ => &mut self
    requires old(self).data.val@.dom().contains(key@) ==> old(self).data.val@[key@].0 < u64::MAX,
    ensures
        // a delete is a write of the empty value at the next version (a tombstone): the version is not lowered
        r.is_ok(), put_effect(old(self).data.val@, final(self).data.val@, key@, Seq::<u8>::empty()),   //[C16.mem.delete-is-a-tombstone]
        versions_monotone(old(self).data.val@, final(self).data.val@),                                //[C16.mem.delete-versions-never-decrease]
//@end

//@fn vls-persist/src/kvv/memory.rs :: impl KVVStore for MemoryKVVStore :: get_prefix props=C16
//@sigsub /&self/ => &mut self
//@sigsub /Self::Iter/ => VxIter
    ensures
        final(self).data.val@ == old(self).data.val@,
        r.is_ok(), prefix_read_ok(old(self).data.val@, prefix@, r->Ok_0.0@),                          //[C16.mem.prefix-read-is-exactly-the-matching-records]
//@sub /for \(k, \(ver, value\)\) in self\.data\.val\.range\(prefix\.to_string\(\)\.\.\) \{/ => let vx_rng = self.data.val.vx_range_from(prefix); for vx_e in it: vx_rng.iter() { let k = &vx_e.0; let ver = &vx_e.1.0; let value = &vx_e.1.1;
//@sub /k\.starts_with\(prefix\)/ => vx_starts_with(k.as_str(), prefix)
//@sub /let mut result = Vec::new\(\);/ => let mut result: Vec<KVV> = Vec::new();
//@sub /k\.clone\(\)/ => vx_to_string(k.as_str())
//@sub /value\.clone\(\)/ => vx_clone_vec(value)
//@sub /Ok\(Iter\(result\.into_iter\(\)\)\)/ => Ok(VxIter(result))
//@loop 1
            invariant_except_break result@.len() == it.index@,
            invariant
                self.data.val == old(self).data.val,
                result@.len() <= vx_rng@.len(),
                forall|i: int| 0 <= i < result@.len() ==> (#[trigger] result@[i]).0@ == vx_rng@[i].0@ && result@[i].1.0 == vx_rng@[i].1.0
                    && result@[i].1.1@ == vx_rng@[i].1.1@ && is_prefix(prefix@, result@[i].0@),
            ensures result@.len() < vx_rng@.len() ==> !is_prefix(prefix@, vx_rng@[result@.len() as int].0@),
//@proof before /^\s*Ok\(VxIter\(result\)\)\s*$/
        proof {
            let m = old(self).data.val@; let out = result@; let n = out.len() as int;
            assert forall|k: Seq<char>| #[trigger] m.dom().contains(k) && is_prefix(prefix@, k) implies
                exists|i: int| 0 <= i < out.len() && (#[trigger] out[i]).0@ == k by {
                axiom_str_order_prefix_first(prefix@, k);
                let j = choose|j: int| 0 <= j < vx_rng@.len() && (#[trigger] vx_rng@[j]).0@ == k;
                if j >= n {
                    // the scan stopped at position n on a key that does not start with the prefix: no later key does
                    if j > n { axiom_str_order_prefix_block(prefix@, vx_rng@[n].0@, vx_rng@[j].0@); }
                    assert(false);
                }
                assert(out[j].0@ == k);
            }
        }
//@end

} // impl

#[verifier::external_body]
pub fn vx_version_of(o: Option<&(u64, Vec<u8>)>) -> (r: Option<u64>)
    ensures r == (match o { Some(p) => Some(p.0), None => None })
{ o.map(|(v, _)| *v) }
#[verifier::external_body]
pub fn vx_cloned(o: Option<&(u64, Vec<u8>)>) -> (r: Option<(u64, Vec<u8>)>)
    ensures (match (o, r) { (Some(p), Some(q)) => p.0 == q.0 && p.1@ == q.1@, (None, None) => true, _ => false })
{ o.cloned() }
#[verifier::external_body]
pub fn vx_vec_eq(a: &Vec<u8>, b: &Vec<u8>) -> (r: bool) ensures r == (a@ == b@) { a == b }

} // verus!
fn main() {}
