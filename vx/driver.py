"""Driver: extract units, run Verus (and Kani in the thorough tier), attribute
failed obligations to properties, write evidence and replay files."""
import argparse
import concurrent.futures as cf
import glob
import hashlib
import json
import os
import re
import subprocess
import sys
import time

from extract import Unit, ExtractError, VX_DIR

VERIF = os.path.dirname(VX_DIR)
REPO = os.environ.get("VLS_REPO", "/repo")
OUT = os.environ.get("VX_OUT", VERIF)          # self-test runs write to a scratch directory, never into /verif
BUILD = os.path.join(OUT, "build")
EVID = os.path.join(OUT, "evidence")
REPLAYS = os.path.join(OUT, "replays")
UNITS_DIR = os.path.join(VX_DIR, "units")
BASELINE = os.path.join(VERIF, "baseline_obligations.json")
KNOWN = os.path.join(VERIF, "known_findings.json")

ASSUMPTIONS_COMMON = [
    "dependencies (bitcoin, lightning, secp256k1, txoo, serde, hashbrown) are trusted and appear only as opaque "
    "types with uninterpreted deterministic spec functions; every stub is listed in coverage.trusted_base",
    "PolicyFilter::filter and the policy_err! expansion are represented by vx_policy_err (Err iff the filter reports "
    "Error for the tag); policy postconditions are conditional on a non-permissive filter for the tags involved",
    "logging, tracing and message formatting are erased (rewrites R1, R2)",
    "only the default feature set is verified (R4)",
    "partial correctness: panics/aborts end a request without an answer (R7); arithmetic is checked against "
    "mathematical integers, so every machine overflow is an obligation",
    "usize is 64 bit",
    "termination only where Verus demands a decreases clause",
    "call markers: where an effect lands behind a lock or in a component the unit only sees as a stub, the stub's contract "
    "establishes an uninterpreted predicate of its exact arguments and the caller's postcondition requires it; the link "
    "from the marker to what the callee guarantees is by function name (the callee is under contract in its own unit)",
    "sequential model of Mutex / Arc<Mutex<..>> (guards are values with a ghost view); serde (de)serialisation and the "
    "storage back ends are assumed to be round trips / not to fail",
]


import threading
EXTRACT_LOCK = threading.Lock()


def sh(cmd, cwd=None, timeout=None, env=None):
    e = dict(os.environ)
    if env:
        e.update(env)
    p = subprocess.run(cmd, cwd=cwd, stdout=subprocess.PIPE, stderr=subprocess.PIPE, timeout=timeout, env=e,
                       shell=isinstance(cmd, str))
    return p.returncode, p.stdout.decode(errors="replace"), p.stderr.decode(errors="replace")


# ---------------------------------------------------------------------------
def unit_props(template):
    """properties served by a template (from //@props, props= and [Cxx.] tags), includes resolved.  Tags inside the
    shared contract fragments (frag/c) do not count: a unit that merely ASSUMES a contract does not serve its property."""
    props = set()

    def rd(path, seen, shared):
        if path in seen:
            return "", ""
        seen.add(path)
        txt = open(path).read()
        own, sh = ("", txt) if shared else (txt, "")
        for m in re.finditer(r"(?m)^\s*//@include\s+(\S+)", txt):
            o2, s2 = rd(os.path.join(VX_DIR, m.group(1)), seen, shared or m.group(1).startswith("frag/c/"))
            own += o2
            sh += s2
        return own, sh
    txt, shared_txt = rd(template, set(), False)
    for m in re.finditer(r"(?m)^\s*//@props\s+(.*)$", txt + shared_txt):
        props.update(m.group(1).split())
    for m in re.finditer(r"props=([\w,]+)", txt + shared_txt):
        props.update(m.group(1).split(","))
    for t in tags_in(txt):
        props.add(t.split(".")[0])
    return props


def all_units():
    return sorted(glob.glob(os.path.join(UNITS_DIR, "*.vx.rs")))


TAG_GROUP = re.compile(r"\[((?:C\d+[\w.\-]*\??\s*)+)\]")


def tags_in(text):
    """all tags of every `//[Cxx.name] [Cyy.name] ...` comment in `text` (several bracket groups may follow one `//`)"""
    out = []
    for cm in re.finditer(r"//(\s*\[(?:C\d+[\w.\-]*\??\s*)+\])+", text):
        for m in TAG_GROUP.finditer(cm.group(0)):
            out.extend(m.group(1).split())
    return out


def tags_on_line(line):
    return tags_in(line)


class UnitResult:
    pass


def run_verus(path, rlimit=None, extra=()):
    cmd = ["verus", os.path.basename(path), "--output-json", "--time", "--error-format=json", "--multiple-errors", "5"]
    if rlimit:
        cmd += ["--rlimit", str(rlimit)]
    cmd += list(extra)
    t0 = time.time()
    rc, out, err = sh(cmd, cwd=os.path.dirname(path), timeout=1800)
    wall = time.time() - t0
    try:
        js = json.loads(out)
    except Exception:
        js = None
    diags = []
    for ln in err.split("\n"):
        ln = ln.strip()
        if ln.startswith("{"):
            try:
                d = json.loads(ln)
                if d.get("$message_type") == "diagnostic":
                    diags.append(d)
            except Exception:
                pass
    return rc, js, diags, err, wall, " ".join(cmd)


def scan_trusted(lines):
    """list every assumption-bearing construct in the built unit"""
    out = []
    bad = []
    n = len(lines)
    for i, ln in enumerate(lines):
        code = ln.split("//")[0]
        if re.search(r"\b(assume|admit)\s*\(", code):
            bad.append((i + 1, ln.strip()))
        if "external_body" in code or "external_type_specification" in code or "external_fn_specification" in code:
            # name = next fn/struct line
            name = None
            for j in range(i, min(n, i + 8)):
                m = re.search(r"\b(fn|struct|enum|type)\s+(\w+)", lines[j])
                if m:
                    name = m.group(1) + " " + m.group(2)
                    break
            out.append("external_body %s" % (name or "?"))
        m = re.search(r"assume_specification\s*(?:<[^\[]*>)?\s*\[\s*([^\]]+)\]", code)
        if m:
            out.append("assume_specification %s" % m.group(1).strip())
        m = re.search(r"\buninterp\s+spec\s+fn\s+(\w+)", code)
        if m:
            out.append("uninterpreted spec fn %s" % m.group(1))
        m = re.search(r"\baxiom\s+fn\s+(\w+)", code)
        if m:
            out.append("axiom %s" % m.group(1))
        if re.search(r"\bglobal\s+size_of\b", code):
            out.append(code.strip())
    return out, bad


def process_unit(template):
    """extract + verify one unit.  If the generated text does not COMPILE and the compiler points into an inserted proof
    hint (a hint may not fit a reshaped statement), the unit is processed once more with the hints of that function left
    out (see DESIGN 3.1, lost anchors: hints only add checked facts)."""
    res = _process_unit(template, set())
    tries = 0
    while res.get("hint_compile_error_in") and tries < 3:
        tries += 1
        skip = set(res.get("skipped_hint_fns", [])) | {res["hint_compile_error_in"]}
        res = _process_unit(template, skip)
    return res


def _process_unit(template, skip_hint_fns):
    res = {"unit": os.path.basename(template).replace(".vx.rs", ""), "template": template, "status": "ok",
           "errors": [], "functions": [], "undecided": None, "skipped_hint_fns": sorted(skip_hint_fns)}
    u = Unit(template, REPO)
    u.skip_hint_fns = set(skip_hint_fns)
    try:
        with EXTRACT_LOCK:
            u.process()
            path = u.write(BUILD)
            cpath = u.write(BUILD, canary=True)
    except ExtractError as e:
        res["status"] = "undecided"
        res["undecided"] = "extract: %s" % e
        return res
    except Exception as e:  # scanner crash etc.: never an alarm
        res["status"] = "undecided"
        res["undecided"] = "extractor crashed: %r" % (e,)
        return res
    lines = [l for l, _ in u.out]
    origins = [o for _, o in u.out]
    res["path"] = path
    res["rewrites"] = u.log
    res["dropped_hints"] = list(getattr(u, "dropped_hints", []))
    res["fn_meta"] = u.fns
    res["tags_generated"] = sorted({t for l in lines if "//[" in l for t in re.findall(r"\[(C\d\d[^\]]*)\]", l[l.index("//["):])})
    trusted, bad = scan_trusted(lines)
    res["trusted_base"] = trusted
    if bad:
        res["status"] = "undecided"
        res["undecided"] = "assume/admit outside the prelude allow-list: %s" % bad[:3]
        return res
    with cf.ThreadPoolExecutor(2) as ex:
        f1 = ex.submit(run_verus, path)
        f2 = ex.submit(run_verus, cpath)
        rc, js, diags, err, wall, cmd = f1.result()
        crc, cjs, cdiags, cerr, cwall, _ = f2.result()
    res["cmd"] = cmd
    res["wall_s"] = wall
    if js is None:
        res["status"] = "undecided"
        res["undecided"] = "verus produced no JSON: %s" % err[-400:]
        return res
    vr = js.get("verification-results", {})
    # --- per function results
    fb = []
    try:
        for mt in js["times-ms"]["smt"]["smt-run-module-times"]:
            fb.extend(mt.get("function-breakdown", []))
    except Exception:
        pass
    res["functions"] = [{"name": f["function"], "mode": f.get("mode:", ""), "ms": f.get("time", 0),
                         "rlimit": f.get("rlimit", 0), "success": f.get("success", False)} for f in fb]
    res["smt_ms"] = sum(f.get("time", 0) for f in fb)
    res["verified"] = vr.get("verified", 0)
    res["verus_errors"] = vr.get("errors", 0)
    # --- diagnostics
    hard = [d for d in diags if d.get("level") == "error"]
    type_err = vr.get("encountered-vir-error") or (vr.get("encountered-error") and vr.get("verified", 0) == 0 and
                                                    vr.get("errors", 0) == 0)
    # rustc / vir errors are not verification errors
    verif_msgs = ("postcondition not satisfied", "precondition not satisfied", "assertion failed",
                  "possible arithmetic underflow/overflow", "invariant not satisfied", "possible division by zero",
                  "decreases not satisfied", "loop invariant", "recommendation not met", "unreachable", "bit shift",
                  "index out of bounds", "aborting due to", "failed this", "not satisfied", "may be out of range",
                  "cannot prove termination", "could not prove termination")
    for d in hard:
        msg = d.get("message", "")
        if msg.startswith("aborting due to"):
            continue
        if "Resource limit" in msg or "rlimit" in msg:
            res["status"] = "undecided"
            res["undecided"] = "solver resource limit: %s" % msg
            continue
        if d.get("code") is not None or not any(k in msg for k in verif_msgs):
            res["status"] = "undecided"
            res["undecided"] = "unsupported construct / type error: %s" % msg[:300]
            res["raw"] = d.get("rendered", "")[:2000]
            # does the compiler point into an inserted proof hint?
            for sp in d.get("spans", []):
                ln = sp.get("line_start", 0) - 1
                if 0 <= ln < len(origins) and origins[ln] and origins[ln][0] == "hint":
                    for fm in u.fns:
                        if fm["out_line_start"] <= ln + 1 <= fm["out_line_end"] and fm["name"] not in skip_hint_fns:
                            res["hint_compile_error_in"] = fm["name"]
            continue
        spans = d.get("spans", [])
        e = {"message": msg, "rendered": d.get("rendered", ""), "tags": [], "fn": None, "real": None, "lines": []}
        prim = [s for s in spans if s.get("is_primary")] or spans
        for s in spans:
            for ln in range(s["line_start"], s["line_end"] + 1):
                if ln - 1 < len(lines):
                    e["tags"].extend(tags_on_line(lines[ln - 1]))
        e["tags"] = sorted(set(e["tags"]))
        # function containing any span
        for s in spans:
            for fm in u.fns:
                if fm["out_line_start"] <= s["line_start"] <= fm["out_line_end"]:
                    e["fn"] = fm
        # if only a clause of a contracted fn is cited (precondition of a callee), find caller via spans order
        for s in prim:
            o = origins[s["line_start"] - 1] if s["line_start"] - 1 < len(origins) else None
            if o and o[0] == "repo":
                e["real"] = "%s:%d" % (o[1], o[2])
            e["lines"].append({"unit_line": s["line_start"], "text": lines[s["line_start"] - 1].strip()
                               if s["line_start"] - 1 < len(lines) else "", "label": s.get("label")})
        for s in spans:
            if not s.get("is_primary"):
                o = origins[s["line_start"] - 1] if s["line_start"] - 1 < len(origins) else None
                if o and o[0] == "repo" and e["real"] is None:
                    e["real"] = "%s:%d" % (o[1], o[2])
        if e["fn"] is not None and e["real"] is None:
            e["real"] = "%s:%d" % (e["fn"]["file"], e["fn"]["line"])
        if e["fn"] is None:
            # a template-level proof/spec fn: find the enclosing fn name textually
            ln0 = min(s["line_start"] for s in spans) if spans else 1
            for k in range(ln0 - 1, -1, -1):
                m = re.search(r"\b(?:proof\s+|spec\s+|exec\s+)?fn\s+(\w+)", lines[k])
                if m:
                    e["lemma"] = m.group(1)
                    break
        res["errors"].append(e)
    if res["status"] == "ok" and vr.get("encountered-error") and not res["errors"]:
        res["status"] = "undecided"
        res["undecided"] = "verus failed without a verification diagnostic: %s" % err[-600:]
    # a function that lost a proof hint (anchor not found) and does not verify without it is not decided: the failure may be
    # nothing but the missing hint
    if res["status"] == "ok" and res["errors"] and res.get("dropped_hints"):
        lost_fns = {fn for fn, _ in res["dropped_hints"]}
        bad = [e for e in res["errors"] if e.get("fn") and e["fn"]["name"] in lost_fns]
        if bad:
            res["status"] = "undecided"
            res["undecided"] = "extract: anchor lost: %s in %s (and the proof does not go through without the hint)" % (
                "; ".join(d for _, d in res["dropped_hints"])[:300], ", ".join(sorted(lost_fns)))
    # --- canary: every contracted (mode=body) function must FAIL in the canary copy
    res["canary_ok"] = True
    res["vacuous"] = []
    if res["status"] == "ok":
        cfb = []
        try:
            for mt in cjs["times-ms"]["smt"]["smt-run-module-times"]:
                cfb.extend(mt.get("function-breakdown", []))
        except Exception:
            cfb = None
        if cfb is None:
            res["status"] = "undecided"
            res["undecided"] = "canary run produced no result: %s" % cerr[-300:]
        else:
            failed = {f["function"] for f in cfb if not f.get("success", False)}
            for fm in u.fns:
                if fm["mode"] != "body":
                    continue
                hit = [x for x in failed if x.endswith("::" + fm["name"])]
                if not hit:
                    res["vacuous"].append(fm["name"])
            for ln in getattr(u, "lemmas", []):
                if not [x for x in failed if x.endswith("::" + ln)]:
                    res["vacuous"].append("lemma " + ln)
            res["lemmas"] = list(getattr(u, "lemmas", []))
            if res["vacuous"]:
                res["canary_ok"] = False
                res["status"] = "undecided"
                res["undecided"] = "vacuity guard: canary assert(false) verified in %s (contradictory requires?)" % res["vacuous"]
    return res


# ---------------------------------------------------------------------------
def load_json(p, default):
    try:
        with open(p) as f:
            return json.load(f)
    except Exception:
        return default


def fn_key(unit, name):
    return "%s::%s" % (unit, name)


def attribute(res, prop, served_by_unit):
    """errors of this unit that count against property `prop`"""
    out = []
    for e in res["errors"]:
        tprops = {t.split(".")[0] for t in e["tags"]}
        if tprops:
            if prop in tprops:
                out.append(e)
            continue
        if e["fn"] is not None:
            if prop in e["fn"]["props"]:
                out.append(e)
            continue
        if served_by_unit:
            out.append(e)
    return out


def err_id(res, e, prop):
    tags = [t for t in e["tags"] if t.startswith(prop + ".")]
    fn = e["fn"]["name"] if e["fn"] else e.get("lemma", "?")
    return "%s:%s:%s" % (res["unit"], fn, ",".join(tags) if tags else e["message"])


def main(argv):
    ap = argparse.ArgumentParser()
    ap.add_argument("prop", nargs="?")
    ap.add_argument("--tier", default=os.environ.get("VERIF_TIER", "quick"))
    ap.add_argument("--replay")
    ap.add_argument("--freeze-baseline", action="store_true")
    ap.add_argument("--units", help="comma list: restrict to these units (debugging)")
    a = ap.parse_args(argv)
    tier = a.tier if a.tier in ("quick", "thorough") else "quick"
    seed = int(os.environ.get("VERIF_SEED", "0") or 0)
    os.makedirs(BUILD, exist_ok=True)
    os.makedirs(EVID, exist_ok=True)
    t0 = time.time()

    templates = all_units()
    if a.units:
        want = set(a.units.split(","))
        templates = [t for t in templates if os.path.basename(t).replace(".vx.rs", "") in want]
    serving = {t: unit_props(t) for t in templates}

    if a.freeze_baseline:
        results = run_units(templates)
        base = {}
        if a.units and os.path.exists(BASELINE):
            base = json.load(open(BASELINE))        # --units: refresh only the named units, keep the others
        for r in results:
            if r["status"] != "ok":
                print("cannot freeze: unit %s is %s: %s" % (r["unit"], r["status"], r["undecided"]))
                return 2
            failed_fns = {(e["fn"]["name"] if e["fn"] else e.get("lemma")) for e in r["errors"]}
            base[r["unit"]] = {
                "verified_functions": sorted(f["name"] for f in r["functions"] if f["success"]),
                "failed": sorted(x for x in failed_fns if x),
                "count": len([f for f in r["functions"] if f["success"]]),
                "tags": r.get("tags_generated", []),
            }
        with open(BASELINE, "w") as f:
            json.dump(base, f, indent=1, sort_keys=True)
        print("baseline frozen: %s" % {k: v["count"] for k, v in base.items()})
        return 0

    if not a.prop:
        ap.error("property id required")
    prop = a.prop
    if a.replay:
        return replay(prop, a.replay, templates, serving)
    mine = [t for t in templates if prop in serving[t]]
    if not mine:
        print("UNDECIDED no unit serves %s" % prop)
        return 2
    results = run_units(mine)
    import kani_driver
    kres = kani_driver.run_for(prop, tier) if (hasattr(kani_driver, "run_for") and not os.environ.get("VX_SELFTEST")) else None
    rc = report(prop, tier, seed, results, kres, t0)
    if tier == "thorough" and rc == 0 and not os.environ.get("VX_SELFTEST"):
        import selftest
        rc = selftest.run(prop, os.path.join(EVID, "%s.json" % prop))
        if rc == 0 and not os.environ.get("VX_NO_SWEEP"):
            import sweep_hook
            sweep_hook.run(prop, os.path.join(EVID, "%s.json" % prop))
    return rc


def replay(prop, path, templates, serving):
    """re-check the obligation recorded in a replay file against the current /repo tree"""
    try:
        doc = json.load(open(path))
    except Exception as e:
        print("cannot read replay file %s: %s" % (path, e))
        return 2
    unit = doc.get("unit")
    mine = [t for t in templates if os.path.basename(t).replace(".vx.rs", "") == unit]
    if not mine:
        print("replay: unit %s not found" % unit)
        return 2
    r = process_unit(mine[0])
    print("replay of obligation %s (%s)" % (doc.get("obligation"), doc.get("real_location")))
    if r["status"] != "ok":
        print("UNDECIDED %s" % r["undecided"])
        return 2
    for e in attribute(r, prop, True):
        if err_id(r, e, prop) == doc.get("obligation"):
            print("still failing on the current tree:")
            print(e.get("rendered", ""))
            if doc.get("counterexample"):
                print("counterexample: %s" % json.dumps(doc["counterexample"]))
            else:
                print("(the verifier gave no failing input: no-failing-input-found)")
            print("VIOLATION property=%s replay=%s no-failing-input-found" % (prop, path))
            return 1
    print("obligation discharged on the current tree")
    return 0


def run_units(templates):
    with cf.ThreadPoolExecutor(max_workers=6) as ex:
        return list(ex.map(process_unit, templates))


def report(prop, tier, seed, results, kres, t0):
    baseline = load_json(BASELINE, {})
    known = load_json(KNOWN, {"findings": [], "fixed": []})
    undecided = [r for r in results if r["status"] != "ok"]
    violations, known_hits = [], []
    obligations = discharged = 0
    fns_under_contract, samples, trusted, per_fn = [], [], [], []
    rewrites = {}
    cmds = []
    for r in results:
        if r["status"] != "ok":
            continue
        cmds.append("cd build && " + r["cmd"])
        for k, v in r["rewrites"].items():
            rewrites[k] = rewrites.get(k, 0) + v
        trusted.extend("%s: %s" % (r["unit"], t) for t in r["trusted_base"])
        contracted = {fm["name"]: fm for fm in r["fn_meta"]}
        relevant_names = set()
        for fm in r["fn_meta"]:
            if prop in fm["props"]:
                relevant_names.add(fm["name"])
                fns_under_contract.append({"function": "%s :: %s :: %s" % (fm["file"], fm["ctx"], fm["name"]),
                                           "line": fm["line"], "mode": fm["mode"], "unit": r["unit"],
                                           "rewrites": fm.get("rewrites", {})})
                if fm["mode"] == "trusted":
                    trusted.append("%s: contract of %s assumed (mode=trusted, body not verified)" % (r["unit"], fm["name"]))
        for f in r["functions"]:
            short = f["name"].split("::")[-1]
            is_contracted = short in contracted
            if is_contracted and short not in relevant_names:
                continue
            obligations += 1
            if f["success"]:
                discharged += 1
            per_fn.append({"fn": f["name"], "mode": f["mode"], "smt_ms": f["ms"], "ok": f["success"], "backend": "verus/z3",
                           "unit": r["unit"]})
        # baseline regression guard: fewer verified functions than frozen => undecided
        b = baseline.get(r["unit"])
        if b and r["status"] == "ok":
            # vacuity guard: a tagged clause of this property that was generated on the pinned tree and is no longer in the
            # generated text means an obligation was lost (never a pass)
            gone = [t for t in b.get("tags", []) if t.startswith(prop + ".") and t not in set(r.get("tags_generated", []))]
            if gone:
                undecided.append({"unit": r["unit"], "status": "undecided",
                                  "undecided": "tagged obligation(s) no longer generated: %s" % ", ".join(gone[:5])})
        mine = attribute(r, prop, True)
        seen_eids = set()
        for e in mine:
            eid = err_id(r, e, prop)
            if eid in seen_eids:
                continue
            seen_eids.add(eid)
            fnname = e["fn"]["name"] if e["fn"] else e.get("lemma", "?")
            k = match_known(known, prop, r["unit"], fnname, e)
            if k:
                known_hits.append((k, e, r))
                continue
            mytags = [t for t in e["tags"] if t.startswith(prop + ".")]
            if mytags and all(t.endswith("?") for t in mytags):
                # a clause that pins the current implementation shape, not the property: never an alarm
                undecided.append({"unit": r["unit"], "status": "undecided",
                                  "undecided": "shape clause %s no longer matches the code (contract needs updating)" % eid})
                continue
            if b is not None and not any(x.endswith("::" + fnname) or x == fnname for x in b.get("verified_functions", [])):
                undecided.append({"unit": r["unit"], "undecided": "obligation %s never verified on the pinned tree" % eid,
                                  "status": "undecided"})
                continue
            violations.append((eid, e, r))
        # samples: tagged clauses of this property
        try:
            with open(r["path"]) as fh:
                for ln in fh:
                    if ("//[" in ln) and any(t.startswith(prop + ".") for t in tags_on_line(ln)):
                        if len(samples) < 12:
                            samples.append(ln.strip())
        except Exception:
            pass
    n_tagged = count_tagged(results, prop)
    bounded = []
    if kres:
        for h in kres.get("harnesses", []):
            if h["class"] == "complete":
                obligations += 1
                if h["ok"]:
                    discharged += 1
                per_fn.append({"fn": h["name"], "mode": "kani", "smt_ms": int(h["secs"] * 1000), "ok": h["ok"],
                               "backend": "kani/cbmc"})
            else:
                bounded.append(h)
        cmds.extend(kres.get("cmds", []))
        trusted.extend(kres.get("trusted", []))
        for v in kres.get("violations", []):
            violations.append((v["id"], v, {"unit": "kani"}))
        if kres.get("undecided"):
            undecided.append({"unit": "kani", "undecided": kres["undecided"], "status": "undecided"})

    wall = time.time() - t0
    # known findings: (a) failing obligations listed in known_findings.json, (b) defects whose existence is
    # itself proved by a lemma of the unit (the lemma verifying means the defect is still there)
    for k, e, r in known_hits:
        print("KNOWN-FINDING: property=%s %s" % (prop, k["what"]))
    proved_defects = []
    for k in known.get("findings", []):
        if k.get("property") == prop and k.get("proved_by_lemma"):
            for r in results:
                if r["status"] == "ok" and r["unit"] == k.get("unit"):
                    ok = [f for f in r["functions"] if f["name"].endswith("::" + k["proved_by_lemma"]) and f["success"]]
                    if ok:
                        print("KNOWN-FINDING: property=%s %s" % (prop, k["what"]))
                        proved_defects.append(k["what"])
    rc = 0
    replay_paths = []
    if violations:
        rc = 1
        os.makedirs(os.path.join(REPLAYS, prop), exist_ok=True)
        for eid, e, r in violations:
            h = hashlib.sha1(eid.encode()).hexdigest()[:10]
            rp = os.path.join(REPLAYS, prop, "%s.json" % h)
            doc = {"property": prop, "obligation": eid, "unit": r.get("unit"),
                   "function": (e.get("fn") or {}).get("name") if isinstance(e.get("fn"), dict) else e.get("lemma"),
                   "real_location": e.get("real"), "tags": e.get("tags"), "clause": e.get("lines"),
                   "verifier_message": e.get("message"), "verifier_output": e.get("rendered"),
                   "counterexample": e.get("counterexample"),
                   "replayed_on_real_code": e.get("replayed") if e.get("replayed") is not None else (e.get("counterexample") or {}).get("replayed_on_real_code"),
                   "replay_output": e.get("replay_output") or (e.get("counterexample") or {}).get("replay_output"),
                   "note": "obligation discharged on the pinned tree (baseline_obligations.json) and fails now"}
            if not doc["counterexample"]:
                # try the paired Kani harness for a concrete input
                try:
                    import kani_driver
                    cx = kani_driver.counterexample_for(prop, doc["function"]) if hasattr(kani_driver, "counterexample_for") else None
                except Exception as ex:
                    cx = None
                if cx:
                    doc.update(cx)
            with open(rp, "w") as f:
                json.dump(doc, f, indent=1)
            suffix = "" if doc.get("counterexample") else " no-failing-input-found"
            print("VIOLATION property=%s replay=%s%s" % (prop, rp, suffix))
            print("  obligation %s at %s" % (eid, e.get("real")))
            replay_paths.append(rp)
    elif undecided:
        rc = 2
        for r in undecided:
            print("UNDECIDED property=%s unit=%s %s" % (prop, r.get("unit"), r.get("undecided")))
            if r.get("raw"):
                print(r["raw"])
    # a function whose only failing clauses are recorded findings is accounted for separately: it is reported as a known
    # finding, listed under coverage.known_finding_obligations and NOT counted among the obligations claimed discharged
    known_fns = {(r["unit"], (e["fn"]["name"] if e.get("fn") else e.get("lemma"))) for _, e, r in known_hits}
    known_rows = [x for x in per_fn if not x["ok"] and (x.get("unit"), x["fn"].split("::")[-1]) in known_fns]
    if not violations:
        for x in known_rows:
            x["known_finding"] = True
        obligations -= len(known_rows)
    ev = {
        "property_id": prop, "tier": tier, "seed": seed, "level": "proof",
        "coverage": {
            "obligations": obligations, "discharged": discharged,
            "checker_cmd": " ; ".join(cmds) if cmds else "(none ran)",
            "trusted_base": sorted(set(trusted)),
            "tagged_clauses": n_tagged,
            "functions_under_contract": fns_under_contract,
            "per_function": per_fn,
            "smt_ms_total": sum(x["smt_ms"] for x in per_fn),
            "samples": samples or ["(no tagged clause)"],
            "extraction_rewrites": rewrites,
            "bounded": bounded,
            "known_findings_reported": [k["what"] for k, _, _ in known_hits] + proved_defects,
            "known_finding_obligations": [x["fn"] for x in known_rows],
            "undecided": [r.get("undecided") for r in undecided],
            "vacuity_guard": "canary copy with assert(false) at the start of every contracted body must fail: "
                             + ("passed" if all(r.get("canary_ok", False) for r in results if r["status"] == "ok") else "FAILED"),
            "explanation": "function-level verification conditions reported by Verus for the functions under contract "
                           "for this property and the lemmas of the same unit; complete Kani harnesses counted "
                           "separately by back end; bounded harnesses are listed under 'bounded' and never counted",
        },
        "assumptions": ASSUMPTIONS_COMMON + prop_assumptions(prop),
        "wall_s": round(wall, 2),
        "violations": len(violations),
    }
    with open(os.path.join(EVID, "%s.json" % prop), "w") as f:
        json.dump(ev, f, indent=1)
    if rc == 0:
        if obligations == 0 or obligations != discharged:
            # a function that serves this property fails, but no clause tagged for this property does (the failing clause belongs
            # to another property): this property is not decided by this run
            print("UNDECIDED property=%s obligation count %d/%d (tier=%s tagged_clauses=%d wall=%.1fs)" % (prop, discharged, obligations, tier, n_tagged, wall))
            return 2
        print("OK property=%s tier=%s obligations=%d discharged=%d tagged_clauses=%d wall=%.1fs" %
              (prop, tier, obligations, discharged, n_tagged, wall))
    return rc


def count_tagged(results, prop):
    n = 0
    for r in results:
        if r.get("path") and os.path.exists(r["path"]):
            for ln in open(r["path"]):
                n += sum(1 for t in tags_on_line(ln) if t.startswith(prop + "."))
    return n


def match_known(known, prop, unit, fnname, e):
    for k in known.get("findings", []):
        if k["property"] != prop:
            continue
        if k.get("proved_by_lemma") or not (k.get("tag") or k.get("function")):
            continue      # witness-lemma findings never excuse a failing obligation; entries must name a tag or function
        if k.get("unit") and k["unit"] != unit:
            continue
        if k.get("function") and k["function"] != fnname:
            continue
        if k.get("tag") and k["tag"] not in e["tags"]:
            continue
        return k
    return None


def prop_assumptions(prop):
    p = os.path.join(VX_DIR, "assumptions.json")
    d = load_json(p, {})
    return d.get(prop, [])
