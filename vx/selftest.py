"""Thorough tier: semantic vacuity guard.  Every seeded change of the property (seeded/<id>/patch.diff) that still
applies is applied to a SCRATCH COPY of /repo's working tree (never to /repo), the property's check is run against that
copy, and the verdict is compared with the one recorded in seeded/<id>/check_result.txt.  A change that used to be
reported and now passes means the contracts lost their teeth on the current tree: the run ends UNDECIDED (exit 2)."""
import glob
import json
import os
import re
import shutil
import subprocess
import sys
import tempfile

VX = os.path.dirname(os.path.abspath(__file__))
VERIF = os.path.dirname(VX)
REPO = os.environ.get("VLS_REPO", "/repo")


def _prop_of(sid):
    m = re.match(r"(?:unfix-)?(C\d\d)", sid)
    return m.group(1) if m else None


def run(prop, evidence_path):
    seeds = []
    for d in sorted(glob.glob(os.path.join(VERIF, "seeded", "*"))):
        sid = os.path.basename(d)
        props = [_prop_of(sid)]
        if sid == "unfix-C05":
            props.append("C08")
        if prop in props and os.path.exists(os.path.join(d, "patch.diff")):
            seeds.append((sid, d))
    results = []
    lost = []
    scratch = tempfile.mkdtemp(prefix="vx-selftest-")
    try:
        for sid, d in seeds:
            rdir = os.path.join(scratch, "repo")
            shutil.rmtree(rdir, ignore_errors=True)
            subprocess.run(["rsync", "-a", "--exclude", "target", "--exclude", ".git", REPO + "/", rdir + "/"], check=True)
            ap = subprocess.run(["git", "apply", "--unsafe-paths", "--directory", rdir, os.path.join(d, "patch.diff")],
                                cwd=scratch, stdout=subprocess.PIPE, stderr=subprocess.STDOUT)
            if ap.returncode != 0:
                ap = subprocess.run(["patch", "-p1", "-s", "-i", os.path.join(d, "patch.diff")], cwd=rdir,
                                    stdout=subprocess.PIPE, stderr=subprocess.STDOUT)
            if ap.returncode != 0:
                results.append({"seed": sid, "verdict": "patch no longer applies (skipped)"})
                continue
            env = dict(os.environ)
            env.update({"VLS_REPO": rdir, "VX_OUT": os.path.join(scratch, "out"), "VX_SELFTEST": "1"})
            p = subprocess.run([sys.executable, os.path.join(VERIF, "check"), prop, "--tier", "quick"], env=env,
                               stdout=subprocess.PIPE, stderr=subprocess.STDOUT)
            out = p.stdout.decode(errors="replace")
            verdict = {0: "OK", 1: "VIOLATION", 2: "UNDECIDED"}.get(p.returncode, "rc=%d" % p.returncode)
            recorded = None
            crp = os.path.join(d, "check_result.txt")
            if os.path.exists(crp):
                for ln in open(crp):
                    m = re.match(r"(VIOLATION|UNDECIDED|OK) property=%s" % prop, ln)
                    if m:
                        recorded = m.group(1)
                        break
            obligations = re.findall(r"obligation (\S+)", out)
            results.append({"seed": sid, "verdict": verdict, "recorded": recorded, "obligations": obligations[:4]})
            if verdict == "OK":
                lost.append(sid)
    finally:
        shutil.rmtree(scratch, ignore_errors=True)
    try:
        ev = json.load(open(evidence_path))
        ev["coverage"]["seed_selftest"] = {
            "what": "seeded changes of this property applied to a scratch copy of the working tree; each must NOT pass",
            "results": results}
        json.dump(ev, open(evidence_path, "w"), indent=1)
    except Exception:
        pass
    n_ok = sum(1 for r in results if r.get("verdict") in ("VIOLATION", "UNDECIDED"))
    print("SELFTEST property=%s seeded=%d not-passing=%d skipped=%d" % (prop, len(results), n_ok,
          sum(1 for r in results if "skipped" in r.get("verdict", ""))))
    if lost:
        print("UNDECIDED property=%s self-test: seeded change(s) %s pass the check on the current tree "
              "(the contracts no longer detect them)" % (prop, ",".join(lost)))
        return 2
    return 0
