"""Thorough tier: semantic vacuity guard.  Every seeded change of the property (seeded/<id>/patch.diff) that still
applies is applied to a SCRATCH COPY of /repo's working tree (never to /repo), the property's check is run against that
copy, and the verdict is compared with the one recorded in seeded/<id>/check_result.txt.  A change that used to be
reported and now passes means the contracts lost their teeth on the current tree: the run ends UNDECIDED (exit 2)."""
import glob
import json
import os
import re
import shutil
import subprocess
import sys
import tempfile
import time

VX = os.path.dirname(os.path.abspath(__file__))
VERIF = os.path.dirname(VX)
REPO = os.environ.get("VLS_REPO", "/repo")


def _prop_of(sid):
    m = re.match(r"(?:unfix-)?(C\d\d)", sid)
    return m.group(1) if m else None


def run(prop, evidence_path):
    seeds = []
    for d in sorted(glob.glob(os.path.join(VERIF, "seeded", "*"))):
        sid = os.path.basename(d)
        props = [_prop_of(sid)]
        if sid == "unfix-C05":
            props.append("C08")
        if prop in props and os.path.exists(os.path.join(d, "patch.diff")):
            seeds.append((sid, d))
    results = []
    lost = []
    scratch = tempfile.mkdtemp(prefix="vx-selftest-")
    t_start = time.time()
    budget = int(os.environ.get("VX_SELFTEST_BUDGET", "1200"))      # seconds; seeds not started within the budget are reported as skipped

    def one(item):
        k, (sid, d) = item
        if time.time() - t_start > budget:
            return {"seed": sid, "verdict": "not run (time budget of the self-test used up; skipped)"}
        wd = os.path.join(scratch, "w%d" % k)
        rdir = os.path.join(wd, "repo")
        os.makedirs(wd, exist_ok=True)
        subprocess.run(["rsync", "-a", "--exclude", "target", "--exclude", ".git", REPO + "/", rdir + "/"], check=True)
        ap = subprocess.run(["git", "apply", "--unsafe-paths", "--directory", rdir, os.path.join(d, "patch.diff")],
                            cwd=wd, stdout=subprocess.PIPE, stderr=subprocess.STDOUT)
        if ap.returncode != 0:
            ap = subprocess.run(["patch", "-p1", "-s", "-i", os.path.join(d, "patch.diff")], cwd=rdir,
                                stdout=subprocess.PIPE, stderr=subprocess.STDOUT)
        if ap.returncode != 0:
            shutil.rmtree(wd, ignore_errors=True)
            return {"seed": sid, "verdict": "patch no longer applies (skipped)"}
        env = dict(os.environ)
        env.update({"VLS_REPO": rdir, "VX_OUT": os.path.join(wd, "out"), "VX_SELFTEST": "1"})
        p = subprocess.run([sys.executable, os.path.join(VERIF, "check"), prop, "--tier", "quick"], env=env,
                           stdout=subprocess.PIPE, stderr=subprocess.STDOUT)
        out = p.stdout.decode(errors="replace")
        shutil.rmtree(wd, ignore_errors=True)
        verdict = {0: "OK", 1: "VIOLATION", 2: "UNDECIDED"}.get(p.returncode, "rc=%d" % p.returncode)
        recorded = None
        crp = os.path.join(d, "check_result.txt")
        if os.path.exists(crp):
            for ln in open(crp):
                m = re.match(r"(VIOLATION|UNDECIDED|OK) property=%s" % prop, ln)
                if m:
                    recorded = m.group(1)
                    break
        obligations = re.findall(r"obligation (\S+)", out)
        return {"seed": sid, "verdict": verdict, "recorded": recorded, "obligations": obligations[:4]}

    try:
        import concurrent.futures as cf
        with cf.ThreadPoolExecutor(max_workers=int(os.environ.get("VX_SELFTEST_JOBS", "4"))) as ex:
            results = list(ex.map(one, list(enumerate(seeds))))
        for r in results:
            if r.get("verdict") == "OK":
                if r.get("recorded") == "OK":
                    # recorded when the seed was collected as a change the model cannot see (e.g. it needs a failing store):
                    # it is listed, it does not make this run undecided
                    r["verdict"] = "OK (recorded as outside the model when collected)"
                else:
                    lost.append(r["seed"])
    finally:
        shutil.rmtree(scratch, ignore_errors=True)
    try:
        ev = json.load(open(evidence_path))
        ev["coverage"]["seed_selftest"] = {
            "what": "seeded changes of this property applied to a scratch copy of the working tree; each must NOT pass",
            "results": results}
        json.dump(ev, open(evidence_path, "w"), indent=1)
    except Exception:
        pass
    n_ok = sum(1 for r in results if r.get("verdict") in ("VIOLATION", "UNDECIDED"))
    if not results:
        n_ok = 0
    print("SELFTEST property=%s seeded=%d not-passing=%d skipped=%d" % (prop, len(results), n_ok,
          sum(1 for r in results if "skipped" in r.get("verdict", ""))))
    if lost:
        print("UNDECIDED property=%s self-test: seeded change(s) %s pass the check on the current tree "
              "(the contracts no longer detect them)" % (prop, ",".join(lost)))
        return 2
    return 0
