use vstd::prelude::*;
use std::collections::VecDeque;
use std::collections::HashMap;
verus! {
pub assume_specification<T: core::cmp::Ord + core::marker::Destruct>[core::cmp::min](a: T, b: T) -> (r: T)
    ensures r == a || r == b;

pub struct VC { pub start_sec: u64, pub bucket_interval: u32, pub buckets: Vec<u64>, pub limit: u64 }

pub open spec fn sum(s: Seq<u64>) -> nat decreases s.len() {
    if s.len() == 0 { 0 } else { s[0] as nat + sum(s.subrange(1, s.len() as int)) }
}

impl VC {
    pub fn velocity(&self) -> (r: u64)
    {
        let mut sum = 0u64;
        for bucket in self.buckets.iter() {
            sum = sum.saturating_add(*bucket)
        }
        sum
    }

    pub fn insert(&mut self, current_sec: u64, velocity_msat: u64) -> (r: bool)
        requires old(self).bucket_interval > 0, current_sec >= old(self).start_sec, old(self).buckets.len() > 0,
    {
        let nshift = (current_sec - self.start_sec) / self.bucket_interval as u64;
        let len = self.buckets.len();
        let nshift = core::cmp::min(len, nshift as usize);
        self.buckets.resize(len - nshift, 0);
        for _ in 0..nshift {
            self.buckets.insert(0, 0);
        }
        self.start_sec = current_sec - (current_sec % self.bucket_interval as u64);
        let current_velocity = self.velocity();
        if current_velocity.saturating_add(velocity_msat) > self.limit {
            false
        } else {
            self.buckets[0] = self.buckets[0].saturating_add(velocity_msat);
            true
        }
    }
}

fn vd(d: &mut VecDeque<u64>) {
    let x = d.pop_front();
    d.push_front(3);
}
}
fn main() {}
