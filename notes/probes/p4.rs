use vstd::prelude::*;
verus! {
#[verifier::external_body]
pub struct ValidationError { _p: u8 }
#[verifier::external_body]
pub struct Msg { _p: u8 }
#[verifier::external_body]
pub fn msg() -> Msg { unimplemented!() }
#[verifier::external_body]
pub fn policy_error(tag: &str, m: Msg) -> ValidationError { unimplemented!() }

pub struct HTLCInfo2 { pub value_sat: u64, pub cltv_expiry: u32 }
pub struct Info { pub offered_htlcs: Vec<HTLCInfo2>, pub a: u64, pub b: u64 }

pub open spec fn sum_htlcs(s: Seq<HTLCInfo2>) -> nat decreases s.len() {
    if s.len() == 0 { 0 } else { sum_htlcs(s.drop_last()) + s.last().value_sat as nat }
}

pub struct V { pub max_htlc_value_sat: u64, pub permissive: bool }
impl V {
    #[verifier::external_body]
    fn perr(&self, tag: &str, m: Msg) -> (r: Result<(), ValidationError>)
        ensures !self.permissive ==> r.is_err(), self.permissive ==> r.is_ok()
    { unimplemented!() }

    fn validate(&self, info: &Info) -> (r: Result<(), ValidationError>)
        ensures r.is_ok() && !self.permissive ==> sum_htlcs(info.offered_htlcs@) <= self.max_htlc_value_sat
    {
        let mut htlc_value_sat: u64 = 0;
        for htlc in it: &info.offered_htlcs
            invariant htlc_value_sat as nat == sum_htlcs(info.offered_htlcs@.take(it.index@ as int))
        {
            htlc_value_sat = htlc_value_sat.checked_add(htlc.value_sat).ok_or_else(|| {
                policy_error(
                    "policy-commitment-payment-velocity",
                    msg(),
                )
            })?;
            proof {
                let s = info.offered_htlcs@.take(it.index@ as int + 1);
                assert(s.drop_last() == info.offered_htlcs@.take(it.index@ as int));
            }
        }
        assert(info.offered_htlcs@.take(info.offered_htlcs@.len() as int) == info.offered_htlcs@);
        if htlc_value_sat > self.max_htlc_value_sat {
            self.perr("policy-commitment-htlc-inflight-limit", msg())?;
        }
        let sum_outputs = info.a.checked_add(info.b).ok_or_else(|| policy_error("x", msg()))?
            .checked_add(htlc_value_sat).ok_or_else(|| policy_error("y", msg()))?;
        Ok(())
    }
}
}
fn main() {}
