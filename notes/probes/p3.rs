use vstd::prelude::*;
verus! {

#[verifier::external_body]
pub struct PublicKey { _p: [u8; 33] }
#[verifier::external_body]
pub struct SecretKey { _p: [u8; 32] }
#[verifier::external_body]
pub struct CommitmentInfo2 { _p: u8 }
#[verifier::external_body]
pub struct CommitmentSignatures { _p: u8 }
#[verifier::external_body]
pub struct ValidationError { _p: u8 }
#[verifier::external_body]
pub struct Status { _p: u8 }
#[verifier::external_body]
pub struct Msg { _p: u8 }

#[verifier::external_body]
pub fn msg() -> Msg { unimplemented!() }

impl core::convert::From<ValidationError> for Status {
    #[verifier::external_body]
    fn from(ve: ValidationError) -> Status { unimplemented!() }
}

impl Clone for CommitmentInfo2 {
    #[verifier::external_body]
    fn clone(&self) -> (r: Self) ensures r == *self { unimplemented!() }
}

pub struct EnforcementState {
    pub next_holder_commit_num: u64,
    pub current_holder_commit_info: Option<CommitmentInfo2>,
    pub current_counterparty_signatures: Option<CommitmentSignatures>,
    pub next_holder_commit_info: Option<(CommitmentInfo2, CommitmentSignatures)>,
    pub channel_closed: bool,
}

impl EnforcementState {
    pub fn set_next_holder_commit_num(
        &mut self,
        num: u64,
        current_commitment_info: CommitmentInfo2,
        counterparty_signatures: CommitmentSignatures,
    )
        requires num == old(self).next_holder_commit_num + 1
        ensures final(self).next_holder_commit_num == num,
            final(self).current_holder_commit_info == Some(current_commitment_info),
    {
        let current = self.next_holder_commit_num;
        assert(num == current + 1);
        self.next_holder_commit_num = num;
        self.current_holder_commit_info = Some(current_commitment_info);
        self.current_counterparty_signatures = Some(counterparty_signatures);
    }
}

pub trait Policy {
    spec fn is_error(&self, tag: &str) -> bool;
    fn policy_error(&self, tag: &str, m: Msg) -> (r: Result<(), ValidationError>)
        ensures self.is_error(tag) == r.is_err();
}

pub trait Validator {
    type P: Policy;
    fn policy(&self) -> &Self::P;

    fn set_next_holder_commit_num(
        &self,
        estate: &mut EnforcementState,
        num: u64,
        current_commitment_info: CommitmentInfo2,
        counterparty_signatures: CommitmentSignatures,
    ) -> (r: Result<(), ValidationError>)
        requires old(estate).next_holder_commit_num < u64::MAX,
        ensures r.is_ok() ==> final(estate).next_holder_commit_num == num,
    {
        let current = estate.next_holder_commit_num;
        if num != current && num != current + 1 {
            self.policy().policy_error("policy-revoke-new-commitment-signed", msg())?;
        }
        estate.set_next_holder_commit_num(num, current_commitment_info, counterparty_signatures);
        Ok(())
    }
}

}
fn main() {}
