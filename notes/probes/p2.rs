use vstd::prelude::*;
use vstd::std_specs::cmp::OrdSpec;
verus! {
#[verifier::allow(undeclared_external_trait)]
pub assume_specification<T: core::cmp::Ord + core::marker::Destruct>[core::cmp::min](a: T, b: T) -> (r: T)
    ensures T::obeys_cmp_spec() ==> r == (if a.cmp_spec(&b) == core::cmp::Ordering::Greater { b } else { a });

fn t(a: usize, b: usize) -> (r: usize) ensures r <= a, r <= b, r == a || r == b {
    core::cmp::min(a, b)
}
fn t2(a: u64, b: u64) -> (r: u64) ensures r >= a, r >= b {
    a.max(b)
}
}
fn main() {}
