use vstd::prelude::*;
verus! {

#[verifier::external_body] pub struct PublicKey { _p: [u8; 33] }
#[verifier::external_body] pub struct SecretKey { _p: [u8; 32] }
#[verifier::external_body] pub struct CommitmentInfo2 { _p: u8 }
#[verifier::external_body] pub struct CommitmentSignatures { _p: u8 }
#[verifier::external_body] pub struct ValidationError { _p: u8 }
#[verifier::external_body] pub struct Status { _p: u8 }
#[verifier::external_body] pub struct Msg { _p: u8 }
#[verifier::external_body] pub struct Summary { _p: u8 }
#[verifier::external_body] pub struct BalanceDelta { _p: u8 }
#[verifier::external_body] pub struct NodeStateGuard { _p: u8 }
#[verifier::external_body] pub struct NodeRef { _p: u8 }
#[verifier::external_body] pub struct Keys { _p: u8 }

#[verifier::external_body] pub fn vx_msg() -> Msg { unimplemented!() }
#[verifier::external_body]
pub fn vx_policy_error(tag: &str, m: Msg) -> ValidationError { unimplemented!() }

impl core::convert::From<ValidationError> for Status {
    #[verifier::external_body]
    fn from(ve: ValidationError) -> Status { unimplemented!() }
}
impl Clone for CommitmentInfo2 {
    #[verifier::external_body]
    fn clone(&self) -> (r: Self) ensures r == *self { unimplemented!() }
}

pub const INITIAL_COMMITMENT_NUMBER: u64 = (1 << 48) - 1;

pub struct EnforcementState {
    pub next_holder_commit_num: u64,
    pub current_holder_commit_info: Option<CommitmentInfo2>,
    pub current_counterparty_signatures: Option<CommitmentSignatures>,
    pub next_holder_commit_info: Option<(CommitmentInfo2, CommitmentSignatures)>,
    pub channel_closed: bool,
}

pub struct SimpleValidator { pub strict: bool }
impl SimpleValidator {
    #[verifier::external_body]
    pub fn vx_policy_err(&self, tag: &str) -> (r: Result<(), ValidationError>)
        ensures self.strict ==> r.is_err(), !self.strict ==> r.is_ok()
    { unimplemented!() }

    #[verifier::external_body]
    pub fn set_next_holder_commit_num(&self, estate: &mut EnforcementState, num: u64,
        info: CommitmentInfo2, sigs: CommitmentSignatures) -> (r: Result<(), ValidationError>)
        ensures
            r.is_ok() ==> final(estate).next_holder_commit_num == num
                && final(estate).current_holder_commit_info == Some(info)
                && final(estate).next_holder_commit_info == old(estate).next_holder_commit_info
                && final(estate).channel_closed == old(estate).channel_closed,
            r.is_err() ==> *final(estate) == *old(estate),
    { unimplemented!() }
}

impl Keys {
    #[verifier::external_body]
    pub fn release_commitment_secret(&self, idx: u64) -> (r: SecretKey) { unimplemented!() }
    #[verifier::external_body]
    pub fn point(&self, idx: u64) -> (r: PublicKey) { unimplemented!() }
}
impl NodeRef {
    #[verifier::external_body]
    pub fn get_state(&self) -> NodeStateGuard { unimplemented!() }
}
impl NodeStateGuard {
    #[verifier::external_body]
    pub fn apply_payments(&mut self, inc: &Summary, out: &Summary, d: &BalanceDelta, v: &SimpleValidator, info: Option<&CommitmentInfo2>) { unimplemented!() }
}
impl EnforcementState {
    #[verifier::external_body]
    pub fn incoming_payments_summary(&self, h: Option<&CommitmentInfo2>, c: Option<&CommitmentInfo2>) -> Summary { unimplemented!() }
    #[verifier::external_body]
    pub fn payments_summary(&self, h: Option<&CommitmentInfo2>, c: Option<&CommitmentInfo2>) -> Summary { unimplemented!() }
    #[verifier::external_body]
    pub fn claimable_balances(&self, g: &NodeStateGuard, h: Option<&CommitmentInfo2>, c: Option<&CommitmentInfo2>) -> BalanceDelta { unimplemented!() }
}

pub struct Channel {
    pub keys: Keys,
    pub enforcement_state: EnforcementState,
    pub persisted: Ghost<EnforcementState>,
    pub persist_count: Ghost<nat>,
    pub val: SimpleValidator,
    pub node: NodeRef,
}

pub open spec fn secret_ok(es: EnforcementState, n: u64) -> bool { n + 2 <= es.next_holder_commit_num }

impl Channel {
    #[verifier::external_body]
    fn persist(&mut self) -> (r: Result<(), Status>)
        ensures r.is_ok(), final(self).enforcement_state == old(self).enforcement_state,
            final(self).persisted@ == old(self).enforcement_state,
            final(self).persist_count@ == old(self).persist_count@ + 1,
            final(self).val == old(self).val,
    { unimplemented!() }

    #[verifier::external_body]
    fn validator(&self) -> (r: SimpleValidator) ensures r == self.val { unimplemented!() }
    #[verifier::external_body]
    fn get_node(&self) -> (r: NodeRef) { unimplemented!() }

    fn get_per_commitment_point(&self, commitment_number: u64) -> (r: Result<PublicKey, Status>)
        requires commitment_number <= INITIAL_COMMITMENT_NUMBER, self.enforcement_state.next_holder_commit_num < INITIAL_COMMITMENT_NUMBER
        ensures r.is_ok() <==> commitment_number <= self.enforcement_state.next_holder_commit_num + 1
    {
        let next_holder_commit_num = self.enforcement_state.next_holder_commit_num;
        if commitment_number > next_holder_commit_num + 1 {
            return Err(vx_policy_error("policy-optional-fail-fast", vx_msg()).into());
        }
        Ok(self.keys.point(INITIAL_COMMITMENT_NUMBER - commitment_number))
    }

    fn get_per_commitment_secret(&self, commitment_number: u64) -> (r: Result<SecretKey, Status>)
        requires commitment_number <= INITIAL_COMMITMENT_NUMBER
        ensures self.val.strict && r.is_ok() ==> secret_ok(self.enforcement_state, commitment_number)
    {
        let next_holder_commit_num = self.enforcement_state.next_holder_commit_num;
        if commitment_number + 2 > next_holder_commit_num {
            let validator = self.validator();
            validator.vx_policy_err("policy-revoke-new-commitment-signed")?;
        }
        let secret = self.keys.release_commitment_secret(INITIAL_COMMITMENT_NUMBER - commitment_number);
        Ok(secret)
    }

    fn release_commitment_secret(&mut self, commitment_number: u64) -> (r: Result<(PublicKey, Option<SecretKey>), Status>)
        requires commitment_number < INITIAL_COMMITMENT_NUMBER, old(self).enforcement_state.next_holder_commit_num < INITIAL_COMMITMENT_NUMBER
        ensures *final(self) == *old(self),
           old(self).val.strict ==> match r { Ok((_, Some(_))) => commitment_number >= 1 && secret_ok(old(self).enforcement_state, (commitment_number - 1) as u64), _ => true }
    {
        let next_holder_commitment_point = self.get_per_commitment_point(commitment_number + 1)?;
        let maybe_old_secret = if commitment_number >= 1 {
            Some(self.get_per_commitment_secret(commitment_number - 1)?)
        } else {
            None
        };
        Ok((next_holder_commitment_point, maybe_old_secret))
    }

    fn advance_holder_commitment_state(&mut self, validator: SimpleValidator, new_current_commitment_number: u64, info2: CommitmentInfo2, counterparty_signatures: CommitmentSignatures)
        -> (r: Result<(PublicKey, Option<SecretKey>), Status>)
        requires new_current_commitment_number + 1 < INITIAL_COMMITMENT_NUMBER, old(self).enforcement_state.next_holder_commit_num < INITIAL_COMMITMENT_NUMBER - 1
        ensures final(self).val == old(self).val, final(self).persisted == old(self).persisted, final(self).persist_count == old(self).persist_count,
    {
        validator.set_next_holder_commit_num(
            &mut self.enforcement_state,
            new_current_commitment_number + 1,
            info2,
            counterparty_signatures,
        )?;
        self.release_commitment_secret(new_current_commitment_number)
    }

    pub fn revoke_previous_holder_commitment(&mut self, new_current_commitment_number: u64)
        -> (r: Result<(PublicKey, Option<SecretKey>), Status>)
        requires new_current_commitment_number + 1 < INITIAL_COMMITMENT_NUMBER, old(self).enforcement_state.next_holder_commit_num < INITIAL_COMMITMENT_NUMBER - 1
        ensures
            // C02 obligation: no advance once closed
            old(self).enforcement_state.channel_closed ==> final(self).enforcement_state.next_holder_commit_num == old(self).enforcement_state.next_holder_commit_num,
    {
        if new_current_commitment_number != self.enforcement_state.next_holder_commit_num {
            return Ok(self.release_commitment_secret(new_current_commitment_number)?);
        }
        let validator = self.validator();
        if self.enforcement_state.next_holder_commit_info.is_none() {
            validator.vx_policy_err("policy-revoke-new-commitment-signed")?;
            let holder_commitment_point = self.get_per_commitment_point(new_current_commitment_number)?;
            return Ok((holder_commitment_point, None));
        }
        let (info2, sigs) = self.enforcement_state.next_holder_commit_info.take().unwrap();
        let incoming_payment_summary = self.enforcement_state.incoming_payments_summary(Some(&info2), None);
        let outgoing_payment_summary = self.enforcement_state.payments_summary(Some(&info2), None);
        let node = self.get_node();
        let mut state = node.get_state();
        let delta = self.enforcement_state.claimable_balances(&state, Some(&info2), None);
        let (next_holder_commitment_point, maybe_old_secret) = self
            .advance_holder_commitment_state(validator, new_current_commitment_number, info2.clone(), sigs)?;
        state.apply_payments(&incoming_payment_summary, &outgoing_payment_summary, &delta, &self.val, Some(&info2));
        self.persist()?;
        Ok((next_holder_commitment_point, maybe_old_secret))
    }
}
}
fn main() {}
