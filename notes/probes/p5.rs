use vstd::prelude::*;
use std::sync::Mutex;
use std::collections::HashMap;
verus! {

pub struct St { pub hwm: u64 }

#[verifier::external_type_specification]
#[verifier::external_body]
#[verifier::reject_recursive_types(T)]
pub struct ExMutex<T>(Mutex<T>);

pub struct Node { pub state: Mutex<St> }

impl Node {
    fn new_channel(&self, dbid: u64) -> (r: Result<(), ()>)
    {
        let g = self.state.lock().unwrap();
        if g.hwm >= dbid { return Err(()); }
        Ok(())
    }
}
}
fn main() {}
