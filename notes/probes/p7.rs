use vstd::prelude::*;
verus! {

pub uninterp spec fn sha256_spec(s: Seq<u8>) -> Seq<u8>;

#[verifier::external_body]
pub fn sha256_hash(res: &[u8; 32]) -> (r: [u8; 32])
    ensures r@ == sha256_spec(res@)
{ unimplemented!() }

pub struct CounterpartyCommitmentSecrets {
    pub old_secrets: Vec<([u8; 32], u64)>,
}

impl CounterpartyCommitmentSecrets {
    fn place_secret(idx: u64) -> (r: u8)
        ensures r <= 48
    {
        for i in 0..48u8 {
            if idx & (1u64 << i) == (1u64 << i) {
                return i;
            }
        }
        48
    }

    fn derive_secret(secret: [u8; 32], bits: u8, idx: u64) -> (r: [u8; 32])
        requires bits <= 48
    {
        let mut res: [u8; 32] = secret;
        for i in 0..bits {
            let bitpos = bits - 1 - i;
            if idx & (1u64 << bitpos) == (1u64 << bitpos) {
                res[(bitpos / 8) as usize] ^= 1u8 << (bitpos & 7);
                res = sha256_hash(&res);
            }
        }
        res
    }
}
}
fn main() {}
