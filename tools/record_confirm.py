#!/usr/bin/env python3
"""record the builder's own confirmation run (scratch worktree log) in seeded/<id>/meta.json"""
import json, sys
for wid in sys.argv[1:]:
    p = '/verif/seeded/%s/meta.json' % wid
    m = json.load(open(p))
    m['confirmed_by_builder'] = {
        'how': 'scratch worktree /tmp/wt/%s (removed afterwards): applied patch.diff, ran the existing tests of the touched crate; applied demo.diff, ran the demo test with and without patch.diff' % wid,
        'result': open('/tmp/wt/confirm_%s.log' % wid).read().strip()}
    json.dump(m, open(p, 'w'), indent=1)
    print(wid, 'recorded')
