#!/bin/bash
# usage: tools/seedtest.sh <patch.diff> <prop> [<prop>...]   apply patch to /repo, run checks, undo,
# then re-run the checks on the clean tree so that evidence files come from the unchanged tree again
set -u
patch="$1"; shift
cd /verif
if ! git -C /repo diff --quiet; then echo "/repo is dirty"; exit 3; fi
git -C /repo apply "$(realpath "$patch")" || { echo "patch does not apply"; exit 3; }
for p in "$@"; do
  ./check "$p" ${TIER:+--tier $TIER}; echo "rc($p)=$?"
done
git -C /repo checkout -- .
for p in "$@"; do ./check "$p" >/dev/null 2>&1 || echo "WARNING: $p not clean after undo"; done
