#!/bin/bash
# usage: tools/seedtest.sh <patch.diff> <prop> [<prop>...]   apply patch to /repo, run checks, undo
set -u
patch="$1"; shift
cd /verif
if ! git -C /repo diff --quiet; then echo "/repo is dirty"; exit 3; fi
git -C /repo apply "$(realpath "$patch")" || { echo "patch does not apply"; exit 3; }
for p in "$@"; do
  ./check "$p" ${TIER:+--tier $TIER}; echo "rc($p)=$?"
done
git -C /repo checkout -- .
