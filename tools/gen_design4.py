#!/usr/bin/env python3
"""rewrites section 4 of DESIGN.md from tools/manifest_src.json (same texts as MANIFEST.json)"""
import json, os
root = os.path.join(os.path.dirname(os.path.abspath(__file__)), "..")
m = json.load(open(os.path.join(root, "tools", "manifest_src.json")))
units = {'C01': 'channel_holder, enforcement, channel_build, handler_holder, handler_cp', 'C02': 'channel_holder, channel_close, sv_commit, enforcement, handler_holder, handler_cp',
         'C03': 'enforcement, secrets, channel_cp, sv_commit, handler_cp', 'C04': 'channel_cp, channel_holder, channel_build, handler_setup, tx_decoder, handler_cp', 'C05': 'sv_commit, sv_setup, policy_filter, node_restore_channels, handler_setup, handler_cp',
         'C06': 'pay_summary, node_payments, sv_commit, payments, enforcement, handler_cp', 'C07': 'sv_close, channel_close, handler_cp',
         'C08': 'sv_onchain, sv_commit', 'C09': 'sv_sweep, channel_sweep, wallet, handler_setup, handler_sweep',
         'C10': 'all channel units, enforcement, secrets, tracker, velocity, kvv_*, node_payments, node_allowlist, node_allowlist_remove, node_allowlist_frame, handler_cp',
         'C11': 'channel_*, node_restore, node_restore_channels, node_ids, node_payments, node_allowlist, node_allowlist_remove, persist_*, handler_blocks',
         'C12': 'velocity, velocity_window, node_restore, node_payments, persist_node_state, approver_velocity', 'C13': 'tracker, tracker_watches, oracle, handler_blocks', 'C14': 'monitor_changes',
         'C15': 'monitor_done, monitor_changes, node_ids, node_restore, node_restore_channels',
         'C16': 'kvv_memory, kvv_cloud, kvv_redb', 'C17': 'hmac, hmac_lss', 'C18': 'keys, node_restore_channels', 'C19': 'psbt_stream'}
by = {c['id']: c for c in m['checks']}
out = ['## 4. Per-property status\n',
       '"proved" = Verus discharges the stated contract on the real body, extracted from `/repo` on that run. "assumed" = trusted\n'
       'stub (listed in evidence). Policy postconditions are conditional on `vx_strict(tag)` for the tags involved (the property\'s\n'
       '"non-permissive policy"). The texts below are the `level_claimed.text` / `level_note` of MANIFEST.json; the functions under\n'
       'contract per unit and the obligations discharged are listed by every run in `evidence/<id>.json`.\n']
for i in sorted(units):
    c = by[i]
    out.append("**%s** (units `%s`). Proved: %s\nNot covered / assumed: %s\n" % (i, units[i], c['text'].replace('Verus proves', '', 1).strip(), c['note']))
na = {n['property_id']: n['reason'] for n in m['not_applicable']}
out.append("**C20** not applicable: %s. The sequential mutex model (R11) used for C15/C16 says nothing about interleavings.\n" % (na['C20'],))
p = os.path.join(root, "DESIGN.md")
s = open(p).read()
i = s.index("## 4. Per-property status")
j = s.index("---------------------------------------------------------------------------------\n\n## 5. Findings")
open(p, "w").write(s[:i] + "\n".join(out) + "\n" + s[j:])
print("section 4 rewritten")
