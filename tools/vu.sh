#!/bin/bash
# build + verify one unit, terse output:  tools/vu.sh <unit> [extra verus args]
u="$1"; shift
cd /verif && python3 vx/extract.py vx/units/$u.vx.rs > /tmp/vu_$u.log 2>&1 || { cat /tmp/vu_$u.log | head -5; exit 2; }
cd build && verus $u.rs --triggers-mode silent "$@" 2>&1 | grep -v "^warning\|^$" | grep -B1 -A22 "^error\|verification results" | head -${VU_LINES:-120}
