#!/usr/bin/env python3
"""tools/benign_units.py <dir with NN.diff>...   false-alarm experiment, fast form: every behaviour-preserving edit is applied to a
scratch copy of /repo's working tree, ALL units are re-extracted and re-verified once (not once per property), and every unit
that fails an obligation (would be a VIOLATION for the properties it serves = false alarm) or goes undecided is listed."""
import concurrent.futures as cf
import glob
import json
import os
import queue
import shutil
import subprocess
import sys
import tempfile

VERIF = os.path.dirname(os.path.dirname(os.path.abspath(__file__)))


KNOWN = json.load(open(os.path.join(VERIF, "known_findings.json"))).get("findings", [])


def known(unit, e):
    """a failing clause that known_findings.json lists (by unit, function and tag) is reported as KNOWN-FINDING by the checks"""
    for k in KNOWN:
        if k.get("tag") and k.get("unit") == unit and k.get("function") == e.get("fn") and k["tag"] in (e.get("tags") or []):
            return True
    return False


def one(diff, wd):
    rdir = os.path.join(wd, "repo")
    shutil.rmtree(rdir, ignore_errors=True)
    subprocess.run(["rsync", "-a", "--exclude", "target", "--exclude", ".git", "/repo/", rdir + "/"], check=True)
    p = subprocess.run(["patch", "-p1", "-s", "-i", os.path.abspath(diff)], cwd=rdir, stdout=subprocess.PIPE, stderr=subprocess.STDOUT)
    if p.returncode != 0:
        return "does not apply"
    env = dict(os.environ)
    env.update({"VLS_REPO": rdir, "VX_OUT": os.path.join(wd, "out"), "VX_SELFTEST": "1"})
    code = ("import sys,json; sys.path.insert(0,%r); import driver;"
            "rs=driver.run_units(driver.all_units());"
            "print('RES '+json.dumps([{'unit':r['unit'],'status':r['status'],'undecided':str(r.get('undecided'))[:200],"
            "'errors':[{'fn':(e['fn']['name'] if e.get('fn') else e.get('lemma')),'tags':e.get('tags')} for e in r.get('errors',[])]} for r in rs]))"
            ) % os.path.join(VERIF, "vx")
    q = subprocess.run([sys.executable, "-c", code], env=env, stdout=subprocess.PIPE, stderr=subprocess.STDOUT)
    out = q.stdout.decode(errors="replace")
    line = [l for l in out.splitlines() if l.startswith("RES ")]
    if not line:
        return "runner failed: " + out[-200:]
    rs = json.loads(line[0][4:])
    bad = []
    for r in rs:
        if r["status"] != "ok":
            bad.append("UNDECIDED unit %s: %s" % (r["unit"], r["undecided"]))
        elif [e for e in r["errors"] if not known(r["unit"], e)]:
            bad.append("FALSE-ALARM unit %s: %s" % (r["unit"], [e for e in r["errors"] if not known(r["unit"], e)][:2]))
    return "; ".join(bad) if bad else "all %d units OK" % len(rs)


def main():
    diffs = []
    for d in sys.argv[1:]:
        diffs += sorted(glob.glob(os.path.join(d, "*.diff")))
    scratch = tempfile.mkdtemp(prefix="vx-benign-")
    try:
        jobs = 3
        free = queue.Queue()
        for i in range(jobs):
            w = os.path.join(scratch, "w%d" % i)
            os.makedirs(w)
            free.put(w)

        def run(d):
            w = free.get()
            try:
                return d, one(d, w)
            finally:
                free.put(w)
        with cf.ThreadPoolExecutor(max_workers=jobs) as ex:
            for diff, verdict in ex.map(run, diffs):
                print("%s: %s" % (diff, verdict), flush=True)
                open(diff.replace(".diff", ".result2.txt"), "w").write(verdict + "\n")
    finally:
        shutil.rmtree(scratch, ignore_errors=True)


if __name__ == "__main__":
    main()
