#!/bin/bash
# usage: tools/confirm_wt.sh <worktree id> "<existing tests cmd>" "<demo cmd>"
# builder's own confirmation of a sub-agent mutant in its scratch worktree /tmp/wt/<id> (outputs in /tmp/wt/<id>-out):
# existing tests with the patch; the demo with the patch (must fail); the demo without the patch (must pass)
wid="$1"; ex="$2"; demo="$3"
W=/tmp/wt/$wid; O=/tmp/wt/$wid-out
export CARGO_NET_OFFLINE=true CARGO_TARGET_DIR=/tmp/wt/$wid-target
cd $W || exit 3
git checkout -q -- . && git clean -fdq
git apply $O/patch.diff || { echo "patch does not apply"; exit 3; }
r1=$(bash -c "$ex" 2>&1 | grep -E "^test result" | tr '\n' ' ')
git apply $O/demo.diff || { echo "demo does not apply on top of patch"; exit 3; }
r2=$(bash -c "$demo" 2>&1 | grep -E "^test result" | tr '\n' ' ')
git apply -R $O/patch.diff || { echo "cannot revert patch"; exit 3; }
r3=$(bash -c "$demo" 2>&1 | grep -E "^test result" | tr '\n' ' ')
git checkout -q -- . && git clean -fdq
echo "$wid | existing(with patch): $r1 | demo with patch: $r2 | demo without patch: $r3"
