#!/bin/bash
# usage: tools/seedtest_scratch.sh <patch.diff> <prop> [<prop>...]   like seedtest.sh but on a scratch copy of /repo's working tree
# (VLS_REPO / VX_OUT redirected): /repo and the evidence files are never touched
set -u
patch="$(realpath "$1")"; shift
S=$(mktemp -d /tmp/vx-seed-XXXX)
rsync -a --exclude target --exclude .git /repo/ $S/repo/
(cd $S/repo && patch -p1 -s < "$patch") || { echo "patch does not apply"; rm -rf $S; exit 3; }
cd /verif
for p in "$@"; do
  VLS_REPO=$S/repo VX_OUT=$S/out VX_SELFTEST=1 ./check "$p"; echo "rc($p)=$?"
done
rm -rf $S
