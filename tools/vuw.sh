#!/bin/bash
# like vu.sh for a unit under development in vx/wip (not yet picked up by the checks)
u="$1"; shift
mkdir -p /tmp/vuw
cd /verif && python3 vx/extract.py vx/wip/$u.vx.rs --out /tmp/vuw > /tmp/vuw/$u.log 2>&1 || { head -5 /tmp/vuw/$u.log; exit 2; }
cd /tmp/vuw && verus $u.rs --triggers-mode silent "$@" 2>&1 | grep -v "^warning\|^$" | grep -B1 -A22 "^error\|verification results" | head -${VU_LINES:-120}
