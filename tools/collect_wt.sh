#!/bin/bash
# usage: tools/collect_wt.sh <worktree id> <prop> [<prop>...]   copies /tmp/wt/<id>-out into seeded/<id>, records the builder's
# confirmation log (/tmp/wt/confirm_<id>.log, written by tools/confirm_wt.sh) and the verdict of the checks on a scratch copy
wid="$1"; shift
mkdir -p /verif/seeded/$wid && cp /tmp/wt/$wid-out/patch.diff /tmp/wt/$wid-out/demo.diff /tmp/wt/$wid-out/meta.json /verif/seeded/$wid/
[ -f /tmp/wt/$wid-out/patch.orig.diff ] && cp /tmp/wt/$wid-out/patch.orig.diff /verif/seeded/$wid/
python3 - "$wid" <<'P'
import json, sys
wid = sys.argv[1]
p = '/verif/seeded/%s/meta.json' % wid
m = json.load(open(p))
m['confirmed_by_builder'] = {
    'how': 'scratch worktree /tmp/wt/%s at the current HEAD of /repo (removed afterwards): applied patch.diff, ran the existing tests of the touched crate; applied demo.diff, ran the demo test with and without patch.diff (tools/confirm_wt.sh)' % wid,
    'result': open('/tmp/wt/confirm_%s.log' % wid).read().strip()}
json.dump(m, open(p, 'w'), indent=1)
P
cd /verif && tools/seedtest_scratch.sh seeded/$wid/patch.diff "$@" 2>&1 | grep -E "^(VIOLATION|UNDECIDED|OK|KNOWN|WARNING|  obligation|rc)" | cut -c1-260 | tee seeded/$wid/check_result.txt
