#!/usr/bin/env python3
"""regenerates MANIFEST.json from tools/manifest_src.json (checks table) so that the file stays valid"""
import json, os
src = json.load(open(os.path.join(os.path.dirname(__file__), "manifest_src.json")))
checks = []
for c in src["checks"]:
    pid = c["id"]
    checks.append({
        "property_id": pid,
        "quick_cmd": "./check %s --tier quick" % pid,
        "thorough_cmd": "./check %s --tier thorough" % pid,
        "evidence_file": "evidence/%s.json" % pid,
        "replay_cmd_template": "./check %s --replay {path}" % pid,
        "engine": c.get("engine", "vx"),
        "level_claimed": {"category": c.get("category", "proof"), "text": c["text"], "design_ref": "DESIGN.md section 4 " + pid},
        "level_note": c["note"],
        "technique": c.get("technique", "contract-based deductive verification (Verus) of the real function bodies, extracted mechanically from /repo on every run"),
    })
m = {
    "version": 1,
    "setup_cmd": src["setup_cmd"],
    "hooks": src["hooks"],
    "engines": src["engines"],
    "checks": checks,
    "notes": src["notes"],
    "not_applicable": src["not_applicable"],
}
json.dump(m, open(os.path.join(os.path.dirname(__file__), "..", "MANIFEST.json"), "w"), indent=1)
print("MANIFEST.json written:", [c["property_id"] for c in checks])
