#!/bin/bash
# re-test every seeded change on scratch copies (4 at a time); prints the ones whose verdict is OK (must be none)
cd /verif
ls -d seeded/*/ | while read d; do
  sid=$(basename $d); prop=$(echo $sid | sed 's/unfix-//' | cut -c1-3)
  [ "$sid" = "unfix-C05" ] && prop="C05"
  echo "$sid $prop"
done | xargs -P 4 -L 1 bash -c 'r=$(tools/seedtest_scratch.sh seeded/$0/patch.diff $1 2>&1 | grep -E "^(VIOLATION|UNDECIDED|OK) property" | head -1 | cut -d" " -f1); echo "$0 $1 ${r:-NONE}"' | sort > build/seeds_all.log
grep -c VIOLATION build/seeds_all.log; grep -c UNDECIDED build/seeds_all.log; grep -v "VIOLATION\|UNDECIDED" build/seeds_all.log
