#!/bin/bash
# usage: tools/do_mutant.sh <worktree id> <prop> [<prop>...]: builder's confirmation (commands taken from the agent's meta.json:
# existing_cmd / demo_cmd) in the scratch worktree, then collect into seeded/<id> with the verdict of the checks on a scratch copy
wid="$1"; shift
ex=$(python3 -c "import json; m=json.load(open('/tmp/wt/$wid-out/meta.json')); c=m.get('existing_cmd'); print(c if isinstance(c,str) else ' && '.join(c))")
demo=$(python3 -c "import json; m=json.load(open('/tmp/wt/$wid-out/meta.json')); c=m.get('demo_cmd'); print(c if isinstance(c,str) else ' && '.join(c))")
echo "existing: $ex"; echo "demo: $demo"
git -C /tmp/wt/$wid checkout -q -- . ; git -C /tmp/wt/$wid clean -fdq; git -C /tmp/wt/$wid checkout -q --detach main
/verif/tools/confirm_wt.sh $wid "$ex" "$demo" > /tmp/wt/confirm_$wid.log 2>&1
cat /tmp/wt/confirm_$wid.log | cut -c1-600
/verif/tools/collect_wt.sh $wid "$@"
