#!/bin/bash
# usage: tools/collect_scratch.sh <worktree id> <prop> <demo test filter> [crate]   (as collect.sh, checks run on a scratch copy)
wid="$1"; prop="$2"; filt="$3"; crate="${4:-vls-core}"
mkdir -p /verif/seeded/$wid && cp /tmp/wt/$wid/MUTANT/* /verif/seeded/$wid/
if [ "$crate" = "vls-core" ]; then ex="cargo test --offline -p vls-core --lib"; demo="cargo test --offline -p vls-core --lib $filt"; else ex="cargo test --offline -p $crate"; demo="cargo test --offline -p $crate $filt"; fi
(cd /tmp/wt && bash confirm2.sh $wid "$ex" "$demo" > /tmp/wt/confirm_$wid.log 2>&1 &)
cd /verif && tools/seedtest_scratch.sh seeded/$wid/patch.diff $prop 2>&1 | grep -E "^(VIOLATION|UNDECIDED|OK|KNOWN|WARNING|  obligation|rc)" | cut -c1-260 | tee seeded/$wid/check_result.txt
