#!/bin/bash
# runs every seeded change against the checks of its property and records the verdict in seeded/<id>/check_result.txt
cd /verif
for d in seeded/*/; do
  id=$(basename $d)
  prop=$(echo $id | sed 's/^unfix-//; s/b$//')
  props="$prop"
  [ "$id" = "unfix-C05" ] && props="C05 C08"
  out=$(tools/seedtest.sh $d/patch.diff $props 2>&1 | grep -E "^(VIOLATION|UNDECIDED|OK|KNOWN-FINDING|WARNING|  obligation|rc\()" | cut -c1-300)
  echo "$out" > $d/check_result.txt
  echo "== $id"; echo "$out" | grep -E "^(VIOLATION|UNDECIDED|OK|rc)" | head -6
done
