#!/usr/bin/env python3
"""tools/mutsweep.py [--units u1,u2] [--jobs N] [--limit K] [--out file.json]

Mechanical contract-strength sweep (a builder's tool, not a registered check).  For every function that a unit puts
under contract with its real body, small operator mutations (relational flip, && / ||, + / -, dropped `!`, dropped
`...?;` statement, true/false) are applied one at a time to a SCRATCH copy of /repo's working tree (never to /repo), the
units that contain the function are re-extracted and re-verified against that copy, and the verdict is recorded:

  killed     some obligation of the unit fails (what ./check would report as VIOLATION or attribute to a clause)
  undecided  the extractor lost an anchor or Verus rejects the text
  survived   everything still verifies: either an equivalent mutant, or text the template replaces, or a WEAK CONTRACT

Survivors are the output that matters: each is reviewed by hand (tools/mutsweep_review.md records the verdicts).
No compilation or test run is done here, so a "killed" mutant may be one the compiler or the tests would also catch.
"""
import argparse
import concurrent.futures as cf
import glob
import json
import os
import re
import shutil
import subprocess
import sys
import tempfile

VERIF = os.path.dirname(os.path.dirname(os.path.abspath(__file__)))
sys.path.insert(0, os.path.join(VERIF, "vx"))
import rustscan  # noqa: E402

REPO = "/repo"


def contracted_functions(units, prop=None):
    out = {}
    for u in units:
        name = os.path.basename(u).replace(".vx.rs", "")
        unit_props = []
        for ln in open(u):
            up = re.match(r"//@props\s+(.*)$", ln)
            if up:
                unit_props = up.group(1).split()
            m = re.match(r"//@fn (\S+) :: (.*?) :: (\w+)(.*)", ln)
            if not m or "mode=trusted" in m.group(4):
                continue
            if prop:
                pm = re.search(r"props=([\w,]+)", m.group(4))
                fprops = pm.group(1).split(",") if pm else unit_props
                if prop not in fprops:
                    continue
            key = (m.group(1), m.group(2).strip(), m.group(3))
            out.setdefault(key, set()).add(name)
    return out


REL = {"<": "<=", "<=": "<", ">": ">=", ">=": ">", "==": "!=", "!=": "=="}


def mutations(src, lo, hi):
    """yield (offset, old, new, kind) inside src[lo:hi], code only"""
    body = src[lo:hi]
    # blank out comments and string literals so that operators inside them are not touched
    masked = list(body)
    for m in re.finditer(r'//[^\n]*|/\*.*?\*/|"(?:\\.|[^"\\])*"', body, re.S):
        for i in range(m.start(), m.end()):
            if masked[i] != "\n":
                masked[i] = " "
    code = "".join(masked)
    for m in re.finditer(r" (<=|>=|==|!=|<|>) ", code):
        op = m.group(1)
        yield (lo + m.start(1), op, REL[op], "rel")
    for m in re.finditer(r" (&&|\|\|) ", code):
        op = m.group(1)
        yield (lo + m.start(1), op, "||" if op == "&&" else "&&", "bool")
    for m in re.finditer(r"[\w)\]] (\+|-) [\w(]", code):
        op = m.group(1)
        yield (lo + m.start(1), op, "-" if op == "+" else "+", "arith")
    for m in re.finditer(r" (\+=|-=) ", code):
        op = m.group(1)
        yield (lo + m.start(1), op, "-=" if op == "+=" else "+=", "arith")
    for m in re.finditer(r"(?<=[\s(])!(?=[\w(])(?!\w+!)", code):
        yield (lo + m.start(), "!", "", "neg")
    for m in re.finditer(r"\b(true|false)\b", code):
        w = m.group(1)
        yield (lo + m.start(1), w, "false" if w == "true" else "true", "lit")
    # simple statements (ending in `;` at bracket depth 0, no block inside): drop a `...?;` check or an assignment
    for (a, b) in simple_statements(code):
        text = code[a:b].strip()
        if re.match(r"(let|return|break|continue)\b", text):
            continue
        if text.endswith("?;"):
            yield (lo + a, body[a:b], "", "dropcheck")
        elif re.match(r"[\w.\[\]*]+\s*(=|\+=|-=|\|=|&=)\s", text) and not text.startswith("let "):
            yield (lo + a, body[a:b], "", "dropassign")
        elif re.match(r"(?s)[\w.:\[\]*&]+\(.*\);$", text) and not re.match(r"[\w:]+!\s*\(", text):
            yield (lo + a, body[a:b], "", "dropcall")
    # conditions forced: `if C {` -> `if false && (C) {` / `if true || (C) {`   (single-line conditions only)
    for m in re.finditer(r"\bif (?!let\b)([^\n{};]+?) \{", code):
        cond = body[m.start(1):m.end(1)]
        if "=>" in cond:
            continue
        yield (lo + m.start(1), cond, "false && (%s)" % cond, "iffalse")
        yield (lo + m.start(1), cond, "true || (%s)" % cond, "iftrue")
    for m in re.finditer(r"\b(\d+)\b(?!\.)", code):
        n = m.group(1)
        if len(n) <= 6 and not code[max(0, m.start() - 1)].isalpha() and code[max(0, m.start() - 1)] != ".":
            yield (lo + m.start(1), n, str(int(n) + 1), "const")
            if int(n) > 0:
                yield (lo + m.start(1), n, str(int(n) - 1), "const")
    for m in re.finditer(r" (<|>) ", code):
        op = m.group(1)
        yield (lo + m.start(1), op, ">" if op == "<" else "<", "relflip")
    for m in re.finditer(r" (<=|>=) ", code):
        op = m.group(1)
        yield (lo + m.start(1), op, ">=" if op == "<=" else "<=", "relflip")


def simple_statements(code):
    """(start, end) of statements of the form `... ;` with no brace block at bracket depth 0, at any block nesting"""
    out = []
    stack = []          # per open bracket: kind
    start = {0: 0}      # block depth -> start offset of the current statement
    bdepth = 0          # number of enclosing `{`
    pdepth = 0          # ( and [ depth inside the current statement
    has_block = {0: False}
    pstack = []
    i = 0
    n = len(code)
    while i < n:
        c = code[i]
        if c in "([":
            pdepth += 1
        elif c in ")]":
            pdepth = max(0, pdepth - 1)
        elif c == "{":
            if pdepth == 0:
                has_block[bdepth] = True
                bdepth += 1
                start[bdepth] = i + 1
                has_block[bdepth] = False
                pstack.append(("b", pdepth))
            else:
                pstack.append(("p", pdepth))
                pdepth += 100          # inside a closure / struct literal within parentheses: never a statement level
        elif c == "}":
            if pstack:
                kind, saved = pstack.pop()
                if kind == "b":
                    bdepth -= 1
                    # a block ended: the statement that contained it continues (`} else {`, `}.x()`), keep has_block
                    nxt = code[i + 1:i + 40].lstrip()
                    if not (nxt.startswith("else") or nxt.startswith(".") or nxt.startswith("?") or nxt.startswith(";") or nxt.startswith(")")):
                        start[bdepth] = i + 1
                        has_block[bdepth] = False
                else:
                    pdepth = saved
        elif c == ";" and pdepth == 0:
            if not has_block.get(bdepth, False):
                a = start.get(bdepth, 0)
                # skip leading whitespace
                while a < i and code[a] in " \t\n":
                    a += 1
                out.append((a, i + 1))
            start[bdepth] = i + 1
            has_block[bdepth] = False
        i += 1
    return out


def worker(args):
    (idx, relfile, off, old, new, kind, fn, units, wdir) = args
    rdir = os.path.join(wdir, "repo")
    path = os.path.join(rdir, relfile)
    src = open(os.path.join(REPO, relfile)).read()
    assert src[off:off + len(old)] == old
    mutated = src[:off] + new + src[off + len(old):]
    open(path, "w").write(mutated)
    env = dict(os.environ)
    env.update({"VLS_REPO": rdir, "VX_OUT": os.path.join(wdir, "out"), "VX_SELFTEST": "1"})
    code = (
        "import sys,json; sys.path.insert(0,%r); import driver;"
        "ts=[t for t in driver.all_units() if __import__('os').path.basename(t).replace('.vx.rs','') in %r];"
        "rs=[driver.process_unit(t) for t in ts];"
        "print('MUTRES '+json.dumps([{'unit':r['unit'],'status':r['status'],'undecided':str(r.get('undecided'))[:300],"
        "'errors':[{'fn':(e['fn']['name'] if e.get('fn') else e.get('lemma')),'tags':e.get('tags'),'msg':str(e.get('message'))[:120]} for e in r.get('errors',[])]} for r in rs]))"
    ) % (os.path.join(VERIF, "vx"), sorted(units))
    try:
        p = subprocess.run([sys.executable, "-c", code], env=env, stdout=subprocess.PIPE, stderr=subprocess.STDOUT,
                           timeout=600)
        out = p.stdout.decode(errors="replace")
    except subprocess.TimeoutExpired:
        out = "TIMEOUT"
    finally:
        open(path, "w").write(src)
    m = re.search(r"MUTRES (.*)", out)
    line = src.count("\n", 0, off) + 1
    rec = {"idx": idx, "file": relfile, "line": line, "fn": fn, "kind": kind, "old": old.strip()[:80], "new": new,
           "units": sorted(units), "context": src.splitlines()[line - 1].strip()[:140]}
    if not m:
        rec["verdict"] = "undecided"
        rec["detail"] = out[-300:]
        return rec
    rs = json.loads(m.group(1))
    if any(r["errors"] for r in rs):
        rec["verdict"] = "killed"
        rec["by"] = sorted({"%s:%s" % (e["fn"], ",".join(e["tags"] or [])) for r in rs for e in r["errors"]})[:4]
    elif any(r["status"] != "ok" for r in rs):
        rec["verdict"] = "undecided"
        rec["detail"] = [r["undecided"] for r in rs if r["status"] != "ok"][:2]
    else:
        rec["verdict"] = "survived"
    return rec


def main():
    ap = argparse.ArgumentParser()
    ap.add_argument("--units")
    ap.add_argument("--fn", help="regex on function names")
    ap.add_argument("--jobs", type=int, default=12)
    ap.add_argument("--limit", type=int, default=0)
    ap.add_argument("--out", default="/tmp/mutsweep.json")
    ap.add_argument("--prop", help="only functions whose //@fn line lists this property")
    ap.add_argument("--sample", type=int, default=0, help="keep at most N mutants, evenly spread (deterministic)")
    ap.add_argument("--kinds", help="comma list of mutation kinds to keep")
    ap.add_argument("--quiet", action="store_true")
    a = ap.parse_args()
    units = sorted(glob.glob(os.path.join(VERIF, "vx", "units", "*.vx.rs")))
    if a.units:
        want = set(a.units.split(","))
        units = [u for u in units if os.path.basename(u).replace(".vx.rs", "") in want]
    fns = contracted_functions(units, a.prop)
    files = {}
    muts = []
    for (relfile, ctx, name), us in sorted(fns.items()):
        if a.fn and not re.search(a.fn, name):
            continue
        if relfile not in files:
            if "#quote:" in relfile:
                import extract
                files[relfile] = extract.Unit(units[0], REPO).rf(relfile)
            else:
                files[relfile] = rustscan.RustFile(os.path.join(REPO, relfile))
        rf = files[relfile]
        items = rf.find_fn(ctx, name)
        if len(items) != 1:
            continue
        it = items[0]
        seen = set()
        for (off, old, new, kind) in mutations(rf.src, it.body_open, it.end):
            if (off, new) in seen:
                continue
            seen.add((off, new))
            if hasattr(rf, "quote_delta"):
                muts.append((rf.quote_base, off + rf.quote_delta, old, new, kind, "%s::%s" % (ctx, name), us))
            else:
                muts.append((relfile, off, old, new, kind, "%s::%s" % (ctx, name), us))
    if a.kinds:
        ks = set(a.kinds.split(","))
        muts = [m for m in muts if m[4] in ks]
    if a.limit:
        muts = muts[:a.limit]
    if a.sample and len(muts) > a.sample:
        step = len(muts) / float(a.sample)
        muts = [muts[int(i * step)] for i in range(a.sample)]
    print("%d mutants over %d functions" % (len(muts), len(fns)), flush=True)
    scratch = tempfile.mkdtemp(prefix="vx-mutsweep-")
    results = []
    try:
        wdirs = []
        for j in range(a.jobs):
            wd = os.path.join(scratch, "w%d" % j)
            os.makedirs(wd)
            subprocess.run(["rsync", "-a", "--exclude", "target", "--exclude", ".git", REPO + "/", wd + "/repo/"], check=True)
            wdirs.append(wd)
        import queue
        free = queue.Queue()
        for wd in wdirs:
            free.put(wd)

        def run_one(i_m):
            i, m = i_m
            wd = free.get()
            try:
                return worker((i,) + m + (wd,))
            finally:
                free.put(wd)
        with cf.ThreadPoolExecutor(max_workers=a.jobs) as ex:
            for n, rec in enumerate(ex.map(run_one, enumerate(muts))):
                results.append(rec)
                if rec["verdict"] != "killed" and not a.quiet:
                    print("%s %s:%d %s [%s] %r -> %r | %s" % (rec["verdict"].upper(), rec["file"], rec["line"], rec["fn"],
                          rec["kind"], rec["old"], rec["new"], rec["context"]), flush=True)
                if (n + 1) % 50 == 0 and not a.quiet:
                    print("... %d/%d" % (n + 1, len(muts)), flush=True)
    finally:
        shutil.rmtree(scratch, ignore_errors=True)
    json.dump(results, open(a.out, "w"), indent=1)
    c = {}
    for r in results:
        c[r["verdict"]] = c.get(r["verdict"], 0) + 1
    print("SUMMARY", c)


if __name__ == "__main__":
    main()
