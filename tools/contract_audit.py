#!/usr/bin/env python3
"""audit: a function proved in one unit and assumed (mode=trusted) in another has its contract written twice; compare the texts
(frag/c includes expanded).  Prints the assumed contracts that are not textually the proved ones."""
import re, glob, os
root = os.path.join(os.path.dirname(os.path.abspath(__file__)), "..")
def norm(t):
    return re.sub(r"\s+", "", re.sub(r"//.*", "", t))
units = {}
for f in sorted(glob.glob(os.path.join(root, "vx/units/*.vx.rs"))):
    out = []
    for l in open(f).read().split("\n"):
        m = re.match(r"\s*//@include (\S+)", l)
        if m and "/c/" in m.group(1) and os.path.exists(os.path.join(root, "vx", m.group(1))):
            out += open(os.path.join(root, "vx", m.group(1))).read().split("\n")
        else:
            out.append(l)
    i = 0
    while i < len(out):
        m = re.match(r"//@fn (\S+) :: (.*?) :: (\w+)\s*(.*)$", out[i])
        if m:
            j, body = i + 1, []
            while j < len(out) and not out[j].startswith("//@end"):
                if out[j].lstrip().startswith(("//@loop", "//@proof")):
                    break
                if not out[j].lstrip().startswith("//@"):
                    body.append(out[j])
                j += 1
            units.setdefault((m.group(1), m.group(2), m.group(3)), []).append(
                (os.path.basename(f), "trusted" if "mode=trusted" in m.group(4) else "proved", m.group(4), norm("\n".join(body))))
        i += 1
same = empty = differ = 0
for k, v in sorted(units.items()):
    pr = [x for x in v if x[1] == "proved" and not re.search(r"\b(as|closure|exprclosure|arm)=", x[2])]
    for t in [x for x in v if x[1] == "trusted"]:
        if not pr:
            continue
        if any(t[3] == p[3] for p in pr):
            same += 1
        elif not t[3]:
            empty += 1
        else:
            differ += 1
            print("RESTATED %s: assumed in %s, proved in %s" % (k[2], t[0], ", ".join(p[0] for p in pr)))
print("assumed == proved text: %d; assumed nothing: %d; restated: %d" % (same, empty, differ))
