#!/bin/bash
# applies each benign (behaviour-preserving) edit to /repo, runs EVERY check, undoes it; a VIOLATION here is a false alarm
cd /verif
for f in seeded-benign2/*.diff; do
  k=$(basename $f .diff)
  git -C /repo diff --quiet || { echo "/repo dirty"; exit 3; }
  git -C /repo apply $(realpath $f) || { echo "$k: does not apply"; continue; }
  res=""
  for p in C01 C02 C03 C04 C05 C06 C07 C08 C09 C10 C11 C12 C13 C14 C15 C16 C17 C18; do
    out=$(./check $p 2>&1); rc=$?
    [ $rc -ne 0 ] && res="$res $p:rc$rc($(echo "$out" | grep -E '^(VIOLATION|UNDECIDED)' | head -1 | cut -c1-150))"
  done
  git -C /repo checkout -- .
  echo "$k: ${res:- all OK}" | tee seeded-benign2/$k.result.txt
done
for p in C01 C02 C03 C04 C05 C06 C07 C08 C09 C10 C11 C12 C13 C14 C15 C16 C17 C18; do ./check $p >/dev/null 2>&1 || echo "WARNING $p not clean"; done
