#!/bin/bash
# like tools/benign.sh, but on a scratch copy of /repo's working tree (VLS_REPO / VX_OUT redirected), so /repo is never touched
# usage: tools/benign_scratch.sh <dir with NN.diff files> [props...]
dir="$1"; shift
props="${@:-C01 C02 C03 C04 C05 C06 C07 C08 C09 C10 C11 C12 C13 C14 C15 C16 C17 C18 C19}"
cd /verif
S=$(mktemp -d /tmp/vx-benign-XXXX)
for f in $dir/*.diff; do
  k=$(basename $f .diff)
  rm -rf $S/repo; rsync -a --exclude target --exclude .git /repo/ $S/repo/
  ap=$(realpath $f); (cd $S/repo && patch -p1 -s < $ap) || { echo "$k: does not apply"; continue; }
  res=""
  for p in $props; do
    out=$(VLS_REPO=$S/repo VX_OUT=$S/out VX_SELFTEST=1 ./check $p 2>&1); rc=$?
    [ $rc -ne 0 ] && res="$res $p:rc$rc($(echo "$out" | grep -E '^(VIOLATION|UNDECIDED)' | head -1 | cut -c1-150))"
  done
  echo "$k: ${res:- all OK}" | tee $dir/$k.result.txt
done
rm -rf $S
