//! Kani harnesses on the compiled real code (public API only); private items are reached through the
//! cfg(kani) hook modules in /verif/kani/inline.
#![allow(unused)]

#[cfg(kani)]
mod channel_id {
    use lightning_signer::channel::ChannelId;

    // C15: ids are never reused relies on oid(new_from_*(x)) == x for all x (complete: loop-free byte shuffling)
    #[kani::proof]
    fn c15_oid_roundtrip_ldk() {
        let x: u64 = kani::any();
        assert!(ChannelId::new_from_oid(x).oid() == x);
    }

    #[kani::proof]
    fn c15_oid_roundtrip_cln() {
        let x: u64 = kani::any();
        let p: [u8; 33] = kani::any();
        assert!(ChannelId::new_from_peer_id_and_oid(&p, x).oid() == x);
    }
}

#[cfg(kani)]
mod kvv_memory {
    use vls_persist::kvv::memory::MemoryKVVStore;
    use vls_persist::kvv::{KVVStore, KVV};

    fn any_key() -> &'static str { if kani::any() { "a" } else { "b" } }
    fn any_ver() -> u64 { let v: u8 = kani::any(); kani::assume(v < 4); v as u64 }
    fn any_val() -> Vec<u8> { let b: u8 = kani::any(); kani::assume(b < 2); vec![b] }

    // C16 (bounded): one put_with_version after an arbitrary first write, against the reference rule
    // "accepted iff v > cur or (v == cur and same bytes); Err leaves the store unchanged; versions never decrease"
    #[kani::proof]
    #[kani::unwind(6)]
    fn c16_put_with_version_rule() {
        let store = MemoryKVVStore::new([0u8; 16]);
        let k1 = any_key();
        let (v1, x1) = (any_ver(), any_val());
        assert!(store.put_with_version(k1, v1, x1.clone()).is_ok()); // empty store accepts anything
        let k2 = any_key();
        let (v2, x2) = (any_ver(), any_val());
        let before = store.get(k2).unwrap();
        let r = store.put_with_version(k2, v2, x2.clone());
        let after = store.get(k2).unwrap();
        match before.clone() {
            None => { assert!(r.is_ok()); assert!(after == Some((v2, x2))); }
            Some((cur, val)) => {
                let accept = v2 > cur || (v2 == cur && val == x2);
                assert!(r.is_ok() == accept);
                if accept { assert!(after == Some((v2, x2))); } else { assert!(after == before); }
                assert!(after.unwrap().0 >= cur);
            }
        }
    }
}

#[cfg(kani)]
mod velocity {
    use lightning_signer::util::velocity::{VelocityControl, VelocityControlIntervalType, VelocityControlSpec};

    fn any_interval() -> VelocityControlIntervalType {
        let k: u8 = kani::any();
        kani::assume(k < 2);
        if k == 0 { VelocityControlIntervalType::Hourly } else { VelocityControlIntervalType::Daily }
    }

    // C12 (complete: two interval types, every limit): the tracked interval of a control built from a spec is the
    // named period - 3600 s for Hourly, 86400 s for Daily - whatever the bucket granularity
    #[kani::proof]
    #[kani::unwind(26)]
    fn c12_tracked_interval_is_the_named_period() {
        let limit: u64 = kani::any();
        let it = any_interval();
        let vc = VelocityControl::new(VelocityControlSpec { limit_msat: limit, interval_type: it });
        let period: u64 = match it { VelocityControlIntervalType::Hourly => 3600, _ => 86400 };
        assert!(vc.bucket_interval as u64 * vc.buckets.len() as u64 == period);
        assert!(vc.limit == limit);
    }

    // (a bounded harness over two VelocityControl::insert calls - 3 buckets, 32-bit amounts - did not finish within 15 minutes
    // under CBMC and ran out of memory with 4 buckets / 64-bit amounts: Vec::insert(0, ..) with a symbolic shift; the window
    // bound is proved by Verus in units velocity / velocity_window instead)
}

// A bounded harness for SimpleValidator::validate_justice_sweep (<= 2 outputs, mock Wallet, fabricated keys) was tried
// here as a shape-independent second route for C09: the Kani 0.68 compiler aborts with an internal error
// (kani-compiler/src/intrinsics.rs:243, assertion on an intrinsic's return type) while compiling the harness, and a
// two-operation harness on MemoryKVVStore (C16) ran out of memory.  Both are recorded in DESIGN.md section 2.

// A bounded harness for ExternalPersistHelper::check_hmac (fixed secret, empty mutation set, received tag of any length
// 0..=33) was tried as a shape-independent route for C17: bitcoin_hashes probes cpuid with inline assembly (stubbed
// away with kani::stub), then the symbolic HMAC-SHA256 did not finish within 20 minutes.  Not registered.
