//! Native replay of a Kani counterexample against the real (normally compiled) code.
//! usage: replay <harness> <byte-vector>...   where every byte vector is written as comma separated decimal bytes
use lightning_signer::channel::ChannelId;
use lightning_signer::util::velocity::{VelocityControl, VelocityControlIntervalType, VelocityControlSpec};

fn parse(v: &str) -> Vec<u8> {
    v.split(',').filter(|s| !s.trim().is_empty()).map(|s| s.trim().parse::<u8>().expect("byte")).collect()
}

fn main() {
    let args: Vec<String> = std::env::args().collect();
    if args.len() < 3 {
        eprintln!("usage: replay <harness> <bytes>...");
        std::process::exit(2);
    }
    let vals: Vec<Vec<u8>> = args[2..].iter().map(|a| parse(a)).collect();
    let ok = match args[1].as_str() {
        "c15_oid_roundtrip_ldk" => {
            let x = u64::from_le_bytes(vals[0].clone().try_into().expect("8 bytes"));
            let got = ChannelId::new_from_oid(x).oid();
            println!("ChannelId::new_from_oid({}).oid() = {}", x, got);
            got == x
        }
        "c15_oid_roundtrip_cln" => {
            // kani::any::<u64>() first, then the 33 bytes of kani::any::<[u8; 33]>() (one vector or one per byte)
            let x = u64::from_le_bytes(vals[0].clone().try_into().expect("8 bytes"));
            let rest: Vec<u8> = vals[1..].iter().flat_map(|v| v.iter().copied()).collect();
            let p: [u8; 33] = rest.try_into().expect("33 bytes");
            let got = ChannelId::new_from_peer_id_and_oid(&p, x).oid();
            println!("ChannelId::new_from_peer_id_and_oid(p, {}).oid() = {}", x, got);
            got == x
        }
        "c12_tracked_interval_is_the_named_period" => {
            // kani::any::<u64>() (limit), then kani::any::<u8>() (0 = Hourly, 1 = Daily)
            let limit = u64::from_le_bytes(vals[0].clone().try_into().expect("8 bytes"));
            let daily = vals[1][0] == 1;
            let it = if daily { VelocityControlIntervalType::Daily } else { VelocityControlIntervalType::Hourly };
            let vc = VelocityControl::new(VelocityControlSpec { limit_msat: limit, interval_type: it });
            let tracked = vc.bucket_interval as u64 * vc.buckets.len() as u64;
            println!("VelocityControl::new({}, {}) tracks {} s in {} buckets of {} s", limit, if daily { "Daily" } else { "Hourly" },
                tracked, vc.buckets.len(), vc.bucket_interval);
            tracked == (if daily { 86400 } else { 3600 }) && vc.limit == limit
        }
        other => {
            eprintln!("no native replay for harness {}", other);
            std::process::exit(2);
        }
    };
    if ok {
        println!("REPLAY: property holds for this input");
        std::process::exit(0);
    }
    println!("REPLAY: property VIOLATED for this input");
    std::process::exit(1);
}
