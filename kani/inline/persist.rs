// Kani harnesses for vls-core/src/persist/mod.rs (child module; compiled only under cfg(kani))
use super::*;

// HMAC-SHA256 is out of CBMC's reach (a symbolic run did not finish in 20 min); the comparison logic of check_hmac does not
// depend on how the tag is computed, so the tag computation is replaced by a function that returns 32 arbitrary bytes (the
// symbolic shared secret).  What is checked is the ACCEPTANCE rule: a received tag is accepted exactly if it is, byte for
// byte and in length, the tag computed for this request.
fn vx_any_tag(secret: &[u8], _nonce: &[u8], _kvs: &Mutations) -> [u8; 32] {
    let mut r = [0u8; 32];
    let mut i = 0;
    while i < 32 {
        r[i] = secret[i];
        i += 1;
    }
    r
}

// C17 (bounded: received tags of up to 40 bytes; every tag value, every received value): check_hmac == (received == tag)
#[kani::proof]
#[kani::unwind(42)]
#[kani::stub(compute_shared_hmac, vx_any_tag)]
fn c17_check_hmac_accepts_exactly_the_tag() {
    let tag: [u8; 32] = kani::any();
    let nonce: [u8; 32] = kani::any();
    let helper = ExternalPersistHelper { shared_secret: tag, last_nonce: nonce };
    let kvs = Mutations::new();
    let buf: [u8; 40] = kani::any();
    let len: usize = kani::any();
    kani::assume(len <= 40);
    let mut received = Vec::with_capacity(40);
    let mut i = 0;
    while i < len {
        received.push(buf[i]);
        i += 1;
    }
    let accepted = helper.check_hmac(&kvs, received);
    let mut same = len == 32;
    let mut j = 0;
    while j < 32 {
        if j < len && buf[j] != tag[j] {
            same = false;
        }
        j += 1;
    }
    assert!(accepted == same);
}
