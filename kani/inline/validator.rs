// Kani harnesses for vls-core/src/policy/validator.rs (child module; compiled only under cfg(kani))
use super::*;

// C03 (complete: 48 iterations unwound, full u64 domain): position of a secret = index of the lowest set bit, capped at 48
#[kani::proof]
#[kani::unwind(50)]
fn c03_place_secret_lowest_set_bit() {
    let idx: u64 = kani::any();
    let p = CounterpartyCommitmentSecrets::place_secret(idx);
    assert!(p <= 48);
    if p < 48 {
        assert!(idx & (1u64 << p) != 0);
        assert!(idx & ((1u64 << p) - 1) == 0);
    } else {
        assert!(idx & ((1u64 << 48) - 1) == 0);
    }
}

// C06 (complete): min_opt
#[kani::proof]
fn c06_min_opt() {
    let a: Option<u64> = kani::any();
    let b: Option<u64> = kani::any();
    let r = min_opt(a, b);
    match (a, b) {
        (Some(x), Some(y)) => assert!(r == Some(if x < y { x } else { y })),
        (Some(_), None) => assert!(r == a),
        (None, _) => assert!(r == b),
    }
}
