// Kani harnesses for vls-core/src/monitor.rs (child module: sees the private State / StateChange).
// Compiled only under cfg(kani) through the hook at the end of monitor.rs.
use super::*;
use bitcoin::hashes::Hash;

const MAXV: usize = 2; // bound on htlc_outputs / second_level_htlc_outputs lengths (stated in evidence)

fn any_txid() -> Txid {
    let b: bool = kani::any();
    Txid::from_byte_array(if b { [1u8; 32] } else { [2u8; 32] })
}
fn any_vout() -> u32 {
    let v: u8 = kani::any();
    kani::assume(v < 4);
    v as u32
}
fn any_outpoint() -> OutPoint {
    OutPoint { txid: any_txid(), vout: any_vout() }
}
fn any_opt_height(max: u32) -> Option<u32> {
    if kani::any() {
        let h: u32 = kani::any();
        kani::assume(h <= max);
        Some(h)
    } else {
        None
    }
}

fn any_closing_outpoints() -> ClosingOutpoints {
    let txid = any_txid();
    let our_output = if kani::any() { Some((any_vout(), kani::any::<bool>())) } else { None };
    let n: usize = kani::any();
    kani::assume(n <= MAXV);
    let mut htlc_outputs = Vec::new();
    let mut htlc_spents = Vec::new();
    for _ in 0..n {
        let v = any_vout();
        // well-formed: output indexes of one transaction are distinct
        kani::assume(!htlc_outputs.contains(&v));
        kani::assume(our_output.map(|(i, _)| i) != Some(v));
        htlc_outputs.push(v);
        htlc_spents.push(kani::any::<bool>());
    }
    let m: usize = kani::any();
    kani::assume(m <= MAXV);
    let mut second = Vec::new();
    for _ in 0..m {
        let op = any_outpoint();
        kani::assume(!second.iter().any(|h: &SecondLevelHTLCOutput| h.matches_outpoint(&op)));
        let mut h = SecondLevelHTLCOutput::new(op);
        h.set_spent(kani::any());
        second.push(h);
    }
    ClosingOutpoints { txid, our_output, htlc_outputs, htlc_spents, second_level_htlc_outputs: second }
}

fn any_state() -> State {
    let height: u32 = kani::any();
    kani::assume(height >= 1 && height < 1_000_000);
    State {
        height,
        funding_txids: Vec::new(),
        funding_vouts: Vec::new(),
        funding_inputs: Set::new(),
        funding_height: any_opt_height(height),
        funding_outpoint: if kani::any() { Some(any_outpoint()) } else { None },
        funding_double_spent_height: any_opt_height(height),
        mutual_closing_height: any_opt_height(height),
        unilateral_closing_height: any_opt_height(height),
        closing_outpoints: if kani::any() { Some(any_closing_outpoints()) } else { None },
        closing_swept_height: any_opt_height(height),
        our_output_swept_height: any_opt_height(height),
        saw_block: true,
        saw_forget_channel: kani::any(),
        channel_id: None,
    }
}

fn co_eq(a: &Option<ClosingOutpoints>, b: &Option<ClosingOutpoints>) -> bool {
    match (a, b) {
        (None, None) => true,
        (Some(x), Some(y)) => {
            x.txid == y.txid
                && x.our_output == y.our_output
                && x.htlc_outputs == y.htlc_outputs
                && x.htlc_spents == y.htlc_spents
                && x.second_level_htlc_outputs.len() == y.second_level_htlc_outputs.len()
                && x
                    .second_level_htlc_outputs
                    .iter()
                    .zip(y.second_level_htlc_outputs.iter())
                    .all(|(p, q)| p.outpoint == q.outpoint && p.spent == q.spent)
        }
        _ => false,
    }
}
fn state_eq(a: &State, b: &State) -> bool {
    a.height == b.height
        && a.funding_height == b.funding_height
        && a.funding_outpoint == b.funding_outpoint
        && a.funding_double_spent_height == b.funding_double_spent_height
        && a.mutual_closing_height == b.mutual_closing_height
        && a.unilateral_closing_height == b.unilateral_closing_height
        && co_eq(&a.closing_outpoints, &b.closing_outpoints)
        && a.closing_swept_height == b.closing_swept_height
        && a.our_output_swept_height == b.our_output_swept_height
        && a.saw_block == b.saw_block
        && a.saw_forget_channel == b.saw_forget_channel
}

// A change the block listener can emit in state `s` (preconditions read off PushListener):
// spends refer to outputs that exist and are unspent on the current chain, confirmations to
// events that have not happened yet.
fn any_applicable_change(s: &State, which: u8) -> StateChange {
    match which {
        0 => {
            kani::assume(s.funding_height.is_none() && s.funding_outpoint.is_none());
            StateChange::FundingConfirmed(any_outpoint())
        }
        1 => StateChange::FundingInputSpent(any_outpoint()),
        2 => {
            kani::assume(s.closing_outpoints.is_none() && s.unilateral_closing_height.is_none());
            let txid = any_txid();
            let our = if kani::any() { Some(any_vout()) } else { None };
            let n: usize = kani::any();
            kani::assume(n <= MAXV);
            let mut idx = Vec::new();
            for _ in 0..n {
                let v = any_vout();
                kani::assume(!idx.contains(&v) && our != Some(v));
                idx.push(v);
            }
            StateChange::UnilateralCloseConfirmed(txid, any_outpoint(), our, idx)
        }
        3 => {
            kani::assume(s.mutual_closing_height.is_none());
            StateChange::MutualCloseConfirmed(any_txid(), any_outpoint())
        }
        4 => {
            let c = s.closing_outpoints.as_ref();
            kani::assume(c.is_some());
            let (v, spent) = match c.unwrap().our_output {
                Some(p) => p,
                None => {
                    kani::assume(false);
                    (0, false)
                }
            };
            kani::assume(!spent);
            StateChange::OurOutputSpent(v)
        }
        5 => {
            let c = s.closing_outpoints.as_ref();
            kani::assume(c.is_some());
            let c = c.unwrap();
            let i: usize = kani::any();
            kani::assume(i < c.htlc_outputs.len());
            kani::assume(!c.htlc_spents[i]);
            let op = any_outpoint();
            kani::assume(!c.includes_second_level_htlc_output(&op));
            StateChange::HTLCOutputSpent(c.htlc_outputs[i], op)
        }
        _ => {
            let c = s.closing_outpoints.as_ref();
            kani::assume(c.is_some());
            let c = c.unwrap();
            let i: usize = kani::any();
            kani::assume(i < c.second_level_htlc_outputs.len());
            kani::assume(!c.second_level_htlc_outputs[i].spent);
            StateChange::SecondLevelHTLCOutputSpent(c.second_level_htlc_outputs[i].outpoint)
        }
    }
}

fn check_roundtrip(which: u8) {
    let s0 = any_state();
    let c = any_applicable_change(&s0, which);
    let mut s = s0.clone();
    let (mut adds_f, mut removes_f) = (Vec::new(), Vec::new());
    s.apply_forward_change(&mut adds_f, &mut removes_f, c.clone());
    let (mut adds_b, mut removes_b) = (Vec::new(), Vec::new());
    s.apply_backward_change(&mut adds_b, &mut removes_b, c);
    // [C14.change.roundtrip] connecting and disconnecting restores the view
    assert!(state_eq(&s, &s0));
    // [C14.change.watch-mirror] the tracker removes `adds` from and re-adds `removes` to the watches
    assert!(adds_b == adds_f);
    assert!(removes_b == removes_f);
}

#[kani::proof]
#[kani::unwind(4)]
fn c14_roundtrip_funding_confirmed() { check_roundtrip(0) }
#[kani::proof]
#[kani::unwind(4)]
fn c14_roundtrip_funding_input_spent() { check_roundtrip(1) }
#[kani::proof]
#[kani::unwind(4)]
fn c14_roundtrip_unilateral_close() { check_roundtrip(2) }
#[kani::proof]
#[kani::unwind(4)]
fn c14_roundtrip_mutual_close() { check_roundtrip(3) }
#[kani::proof]
#[kani::unwind(4)]
fn c14_roundtrip_our_output_spent() { check_roundtrip(4) }
#[kani::proof]
#[kani::unwind(4)]
fn c14_roundtrip_htlc_output_spent() { check_roundtrip(5) }
#[kani::proof]
#[kani::unwind(4)]
fn c14_roundtrip_second_level_spent() { check_roundtrip(6) }
