// Kani harnesses for vls-core/src/monitor.rs (child module; compiled only under cfg(kani)).
// A round-trip harness over the whole monitor State (Vec clones, 32-byte Txid comparisons) took 19 minutes and then
// failed on memcmp unwinding; the change algebra is proved by Verus instead (unit monitor_changes).  What remains here
// are tiny complete checks of helper contracts that the Verus unit assumes.
use super::*;

// C14 / C15 (bounded: two HTLC outputs, two second-level outputs, every flag symbolic): ClosingOutpoints::is_all_spent is
// the conjunction of all spent flags.  Runs the compiled code, so it also decides rewrites of the function that the
// Verus template cannot follow (new loops).
#[kani::proof]
#[kani::unwind(4)]
fn c14_is_all_spent_small() {
    let our: Option<(u32, bool)> = if kani::any() { Some((0, kani::any())) } else { None };
    let h1: bool = kani::any();
    let h2: bool = kani::any();
    let t1: bool = kani::any();
    let t2: bool = kani::any();
    let n_second: u8 = kani::any();
    kani::assume(n_second <= 2);
    let null = bitcoin::OutPoint::null();
    let mut second = Vec::new();
    if n_second >= 1 { second.push(SecondLevelHTLCOutput { outpoint: null, spent: t1 }); }
    if n_second >= 2 { second.push(SecondLevelHTLCOutput { outpoint: null, spent: t2 }); }
    let c = ClosingOutpoints {
        txid: bitcoin::hashes::Hash::all_zeros(),
        our_output: our,
        htlc_outputs: vec![1, 2],
        htlc_spents: vec![h1, h2],
        second_level_htlc_outputs: second,
    };
    let expect = (match our { Some((_, b)) => b, None => true }) && h1 && h2
        && (n_second < 1 || t1) && (n_second < 2 || t2);
    assert!(c.is_all_spent() == expect);
}
