// Kani harnesses for vls-core/src/monitor.rs (child module; compiled only under cfg(kani)).
// A round-trip harness over the whole monitor State (Vec clones, 32-byte Txid comparisons) took 19 minutes and then
// failed on memcmp unwinding; the change algebra is proved by Verus instead (unit monitor_changes).  What remains here
// are tiny complete checks of helper contracts that the Verus unit assumes.
use super::*;

// C14 (complete): ClosingOutpoints::is_all_spent for a closing tx with one HTLC output and no second-level outputs
#[kani::proof]
#[kani::unwind(3)]
fn c14_is_all_spent_small() {
    let our: Option<(u32, bool)> = if kani::any() { Some((0, kani::any())) } else { None };
    let spent: bool = kani::any();
    let c = ClosingOutpoints {
        txid: bitcoin::hashes::Hash::all_zeros(),
        our_output: our,
        htlc_outputs: vec![1],
        htlc_spents: vec![spent],
        second_level_htlc_outputs: Vec::new(),
    };
    let expect = (match our { Some((_, b)) => b, None => true }) && spent;
    assert!(c.is_all_spent() == expect);
}
