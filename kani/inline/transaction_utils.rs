// Kani harnesses for vls-core/src/util/transaction_utils.rs (child module; compiled only under cfg(kani))
use super::*;

// (a harness for estimate_feerate_per_kw was dropped: symbolic u128 division did not finish within 50 minutes under CBMC;
// the function is proved by Verus in unit sv_commit)

// C05 (complete): the commitment weight formula
#[kani::proof]
fn c05_expected_commitment_tx_weight() {
    let anchors: bool = kani::any();
    let n: usize = kani::any();
    kani::assume(n <= 0xffff_ffff);
    let w = expected_commitment_tx_weight(anchors, n);
    assert!(w == (if anchors { 1124 } else { 724 }) + n * 172);
}
